"""Property-check driver: runs a property's harness tasks in parallel, classifies
counterexamples (known finding / new -> native replay), checks vacuity witnesses,
validates the executor against the native build, writes evidence, sets exit code."""
import hashlib
import json
import os
import random
import re
import subprocess
import sys
import time

import build
import run
import expr as X

VERIF = build.VERIF
KNOWN = os.path.join(VERIF, 'known_findings.txt')
EVID = os.path.join(VERIF, 'evidence')
REPLAY = os.path.join(VERIF, 'out', 'replay')


class Task(object):
    """one symbolic obligation: harness text + entry + judge"""

    def __init__(s, tid, text, entry, judge=None, opts=None, desc='', reach=(), native_judge=None,
                 expect_native='judge', bounds='', kinds=None):
        s.kinds = kinds
        s.tid = tid
        s.text = text
        s.entry = entry
        s.judge = judge
        s.opts = opts or {}
        s.desc = desc
        s.reach = tuple(reach)
        s.native_judge = native_judge if native_judge is not None else judge
        s.expect_native = expect_native     # 'judge' | 'crash' | 'hang'
        s.bounds = bounds


def norm_key(task, v):
    msg = re.sub(r'0x[0-9a-fA-F]+', 'N', v['msg'])
    msg = re.sub(r'\d+', 'N', msg)
    msg = re.sub(r'\s+', ' ', msg).strip()
    return '%s|%s|%s' % (task, v['kind'], msg[:140])


def load_known(pid):
    out = {}
    if not os.path.exists(KNOWN):
        return out
    for ln in open(KNOWN):
        ln = ln.strip()
        if not ln or ln.startswith('#') or ln.startswith('fixed:'):
            continue
        m = re.match(r'finding:\s+property=(\w+)\s+key=(.*?)\s+::\s+(.*)$', ln)
        if m and m.group(1) == pid:
            out[m.group(2)] = m.group(3)
    return out


def key_matches(pattern, key):
    """known-finding patterns may use * as wildcard"""
    if pattern == key:
        return True
    rx = '^' + '.*'.join(re.escape(p) for p in pattern.split('*')) + '$'
    return re.match(rx, key) is not None


# ------------------------------------------------------------------ native replay
class FakeState(object):
    def __init__(s, outs, notes):
        s.outs = outs
        s.notes = notes
        s.pc = []
        s.sub = {}
        s.submemo = {}
        s.watch = {}
        s.flags = {'native': 1}
        s.inputs = []
        s.model = {}

    def simp(s, e):
        return e


class FakeEx(object):
    def __init__(s):
        s.violations = []
        s.obl_solver = s.obl_concrete = s.obl_failed = 0
        s.solver = None

    def model_for(s, st):
        return {}


def write_inputs(path, inputs):
    with open(path, 'w') as f:
        for n, v, w, k in inputs:
            f.write('%s %d\n' % (re.sub(r'\s', '_', n), v))


def native_run(text, entry, inputs, timeout=30, san=True, env_extra=None):
    """-> dict(rc, outs, notes, asserts, stdout, stderr, timeout)"""
    exe = build.native_harness(text, san=san, defs=['-DVP_ENTRY=' + entry])
    os.makedirs(REPLAY, exist_ok=True)
    inp = os.path.join(REPLAY, 'in_%d_%s.txt' % (os.getpid(), hashlib.sha256(repr(inputs).encode()).hexdigest()[:10]))
    write_inputs(inp, inputs)
    import tempfile
    import shutil
    tmpd = tempfile.mkdtemp(prefix='fs_', dir=REPLAY)
    os.makedirs(os.path.join(tmpd, 'ro_is_not_a_dir'), exist_ok=True)
    env = dict(os.environ, VP_INPUTS=inp, VP_TMP=tmpd, ASAN_OPTIONS='detect_leaks=1:abort_on_error=0:exitcode=99',
               UBSAN_OPTIONS='print_stacktrace=1:halt_on_error=1:exitcode=98', TSAN_OPTIONS='exitcode=66:halt_on_error=0')
    if env_extra:
        env.update(env_extra)
    try:
        r = subprocess.run([exe], stdout=subprocess.PIPE, stderr=subprocess.PIPE, text=True, timeout=timeout, env=env,
                           errors='replace')
        rc, so, se, to = r.returncode, r.stdout, r.stderr, False
    except subprocess.TimeoutExpired as e:
        rc, so, se, to = -1, (e.stdout or b'').decode('latin1') if isinstance(e.stdout, bytes) else (e.stdout or ''), \
            '', True
    try:
        os.unlink(inp)
    except OSError:
        pass
    shutil.rmtree(tmpd, ignore_errors=True)
    outs, notes, asserts, reach = [], [], [], []
    for ln in so.split('\n'):
        if ln.startswith('OUT '):
            p = ln.split(' ')
            hx = p[2] if len(p) > 2 else ''
            hx = ''.join(ch for ch in hx if ch in '0123456789abcdefABCDEF')
            if len(hx) % 2:
                hx = hx[:-1]
            outs.append((p[1], list(bytes.fromhex(hx)) if hx else []))
        elif ln.startswith('NOTE '):
            p = ln.split(' ')
            notes.append((p[1], int(p[2])))
        elif ln.startswith('ASSERT_FAIL '):
            asserts.append(ln[12:])
        elif ln.startswith('REACH '):
            reach.append(ln[6:])
    return dict(rc=rc, outs=outs, notes=notes, asserts=asserts, reach=reach, stdout=so[-4000:], stderr=se[-6000:],
                timeout=to, done='DONE' in so)


def native_confirm(task, viol):
    """replay one counterexample against the real build -> (reproduced?, detail)"""
    kind = viol['kind']
    if kind == 'schedule_dependent':
        # the written file must not depend on the schedule: compare the bytes across sleep-perturbed native runs
        seen = {}
        for seed in range(0, 40):
            envx = {'VP_CHAOS': str(seed * 7919)} if seed > 1 else ({'VP_DELAY_AT': 'before_close'} if seed == 1 else None)
            nr = native_run(task.text, task.entry, viol['inputs'], timeout=30, env_extra=envx)
            for tag, bs in nr['outs']:
                if tag == 'file':
                    seen.setdefault(bytes(bs), seed)
            if len(seen) > 1:
                return True, 'native runs under different sleep-perturbed schedules wrote different files (%s bytes)' % (
                    ' vs '.join(str(len(k)) for k in seen))
        return False, '40 native runs wrote identical files'
    if kind == 'address_dependent':
        # the same inputs in two native runs whose heap layouts differ: the exported bytes must be identical
        seen = {}
        for k in (0, 3, 11):
            nr = native_run(task.text, task.entry, viol['inputs'], timeout=30, env_extra={'VP_HEAP_SHIFT': str(k)} if k else None)
            key = tuple((tag, bytes(bs)) for tag, bs in nr['outs'] if tag in ('bytes1',))
            seen.setdefault(key, k)
            if len(seen) > 1:
                return True, 'native runs with different heap layouts (VP_HEAP_SHIFT %s) emit different bytes for the same object' % sorted(seen.values())
        return False, 'native runs with three heap layouts emit identical bytes'
    if kind == 'growth':
        # re-measure natively with the counting allocator: the judge callback decides
        cb = task.opts.get('native_growth')
        if cb is None:
            return False, 'no native growth measurement'
        return cb()
    if kind == 'uninit_member':
        a = native_run(task.text, task.entry, viol['inputs'], env_extra={'VP_POISON': '0x00'})
        b = native_run(task.text, task.entry, viol['inputs'], env_extra={'VP_POISON': '0xA5'})
        oa = [o for o in a['outs'] if o[0].startswith('c:')]
        ob = [o for o in b['outs'] if o[0].startswith('c:')]
        diff = [x[0] for x, y in zip(oa, ob) if x != y]
        if diff:
            return True, 'member values of a freshly constructed object differ between heap poison 0x00 and 0xA5: %s' % diff[:6]
        return False, 'members identical under two heap poisons'
    if kind == 'uninit_output':
        a = native_run(task.text, task.entry, viol['inputs'], env_extra={'VP_POISON': '0x00'})
        b = native_run(task.text, task.entry, viol['inputs'], env_extra={'VP_POISON': '0xA5'})
        oa = [o for o in a['outs'] if o[0].startswith('bytes') or o[0] == 'file']
        ob = [o for o in b['outs'] if o[0].startswith('bytes') or o[0] == 'file']
        if oa != ob:
            return True, 'emitted bytes differ between heap poison 0x00 and 0xA5: %s vs %s' % (
                bytes(oa[0][1]).hex()[:160] if oa else '', bytes(ob[0][1]).hex()[:160] if ob else '')
        # never-written automatic variables: two builds that pre-fill every local with a pattern / with zero
        a = native_run(task.text, task.entry, viol['inputs'], san='stackpat')
        b = native_run(task.text, task.entry, viol['inputs'], san='stackzero')
        oa = [o for o in a['outs'] if o[0].startswith('bytes') or o[0] == 'file']
        ob = [o for o in b['outs'] if o[0].startswith('bytes') or o[0] == 'file']
        if oa != ob and oa and ob:
            d = [i for i, (x, y) in enumerate(zip(oa[0][1], ob[0][1])) if x != y][:12]
            return True, 'emitted bytes differ between a build with pattern-initialised and one with zero-initialised automatic variables (offsets %s)' % d
        return False, 'outputs identical under two heap poisons and two stack initialisations'
    if kind == 'stale_dependence':
        m = re.search(r'field "([^"]+)"', viol['msg'])
        fld = m.group(1) if m else ''
        base = native_run(task.text, task.entry, viol['inputs'])
        sig0 = (base['rc'], base['outs'], base['notes'])
        for alt in (0, 1, 0xffffffff, 0x7fffffff, 1000):
            inp2 = [[n, (alt & ((1 << w) - 1)) if n.startswith('stale:' + fld + '#') else v, w, k]
                    for n, v, w, k in viol['inputs']]
            if inp2 == [list(x) for x in viol['inputs']]:
                continue
            r2 = native_run(task.text, task.entry, inp2)
            if (r2['rc'], r2['outs'], r2['notes']) != sig0:
                return True, 'native behaviour changes when only the stale field %s is changed to %d (rc %s -> %s)' % (
                    fld, alt, base['rc'], r2['rc'])
        return False, 'native behaviour independent of the stale field'
    if kind == 'race':
        # a data race: the same harness and the library sources built with ThreadSanitizer; the schedule of the
        # counterexample first, then unperturbed and sleep-perturbed runs
        sched = (viol.get('extra') or {}).get('schedule') or []
        envs = []
        if sched and len(sched[0]) >= 4 and sched[0][3] and sched[0][3][0] in ('L', 'U', 'S'):
            skind, stid, scnt = sched[0][3]
            for d in (0, 1, -1, 2):
                if scnt + d >= 1:
                    e = {'VP_PAUSE': '%d:%s:%d:%d' % (stid, skind, scnt + d, 300)}
                    if task.opts.get('child_first'):
                        e['VP_CHILD_FIRST'] = '100'
                    envs.append(e)
        envs += [None, {'VP_CHILD_FIRST': '50'}] + [{'VP_CHAOS': str(s * 7919)} for s in range(1, 7)]
        last = ''
        for e in envs:
            nr = native_run(task.text, task.entry, viol['inputs'], timeout=60, san='tsan', env_extra=e)
            if 'ThreadSanitizer: data race' in nr['stderr']:
                i = nr['stderr'].find('ThreadSanitizer: data race')
                return True, 'ThreadSanitizer build of harness and library (%s): %s' % (e or 'unperturbed', nr['stderr'][i:i + 700].replace('\n', ' | '))
            last = 'rc=%s %s' % (nr['rc'], nr['stderr'][-200:].replace('\n', ' | '))
        # fall through to the AddressSanitizer stress replay: a race may also show as memory corruption
    if task.opts.get('preempt_bound') and kind in ('memory', 'race', 'deadlock', 'hang', 'assert', 'uncaught_exception', 'terminate'):
        # schedule-dependent counterexample, first the schedule itself: pause the preempted thread natively at the
        # synchronisation point where llsym preempted it (the per-thread count may be off by a few mutex operations that
        # only the native libstdc++ performs, so neighbouring counts are tried as well)
        sched = (viol.get('extra') or {}).get('schedule') or []
        if sched and len(sched[0]) >= 4 and sched[0][3] and sched[0][3][0] in ('L', 'U', 'S'):
            skind, stid, scnt = sched[0][3]
            for d in (0, 1, -1, 2, -2, 3, -3, 4, -4, 5, 6):
                if scnt + d < 1:
                    continue
                envp = {'VP_PAUSE': '%d:%s:%d:%d' % (stid, skind, scnt + d, 900 if task.opts.get('child_first') else 500)}
                if task.opts.get('child_first'):
                    envp['VP_CHILD_FIRST'] = '150'
                nr = native_run(task.text, task.entry, viol['inputs'], timeout=15, env_extra=envp)
                bad = nr['rc'] != 0 or not nr['done'] or nr['timeout'] or (kind == 'assert' and viol['msg'] in nr['asserts'])
                if bad and not (kind == 'assert' and viol['msg'] not in nr['asserts'] and nr['rc'] == 0):
                    return True, 'native replay of the schedule (thread %d paused at its %d-th %s) fails: %s rc=%s %s' % (
                        stid, scnt + d, {'L': 'mutex acquisition', 'U': 'mutex release', 'S': 'thread start'}[skind],
                        'timed out (hang)' if nr['timeout'] else '', nr['rc'], nr['stderr'][-300:].replace('\n', ' | '))
    if task.opts.get('preempt_bound') and kind in ('memory', 'race', 'deadlock', 'assert', 'uncaught_exception', 'terminate'):
        # stress replay with sleep-induced preemptions at mutex releases
        last = ''
        for seed in range(1, 41):
            nr = native_run(task.text, task.entry, viol['inputs'], timeout=20, env_extra={'VP_CHAOS': str(seed * 7919)})
            bad = nr['rc'] != 0 or not nr['done'] or nr['timeout'] or (kind == 'assert' and viol['msg'] in nr['asserts'])
            last = 'rc=%s %s' % (nr['rc'], nr['stderr'][-500:].replace('\n', ' | '))
            if bad:
                return True, 'native stress replay (chaos seed %d) fails: %s' % (seed * 7919, last)
        return False, 'native stress replay: 40 chaos schedules completed without failure (%s)' % last
    nr = native_run(task.text, task.entry, viol['inputs'], timeout=task.opts.get('native_timeout', 30))
    if kind == 'leak':
        bad = 'LeakSanitizer' in nr['stderr'] or nr['rc'] not in (0,)
        return bad, 'native rc=%s %s' % (nr['rc'], nr['stderr'][-500:].replace('\n', ' | '))
    if kind in ('memory', 'uncaught_exception', 'terminate', 'trap', 'unreachable'):
        bad = nr['rc'] != 0 or not nr['done']
        return bad, 'native rc=%s %s' % (nr['rc'], nr['stderr'][-600:].replace('\n', ' | '))
    if kind in ('deadlock', 'hang'):
        if nr['timeout']:
            return True, 'native run timed out (hang)'
        n2 = native_run(task.text, task.entry, viol['inputs'], timeout=40, env_extra={'VP_MAIN_SLOW': '15'})
        if n2['timeout']:
            return True, 'native run with a slow application thread (15 ms pause after each of its mutex releases: the workers run until they park, as in the cooperative schedule) timed out (hang)'
        for seed in range(1, 7):
            n2 = native_run(task.text, task.entry, viol['inputs'], timeout=20, env_extra={'VP_CHAOS': str(seed * 104729)})
            if n2['timeout']:
                return True, 'native run with chaos seed %d timed out (hang)' % (seed * 104729)
            if n2['rc'] != 0:
                return True, 'native run with chaos seed %d failed rc=%s %s' % (seed * 104729, n2['rc'], n2['stderr'][-300:].replace('\n', ' | '))
        return False, 'native run completed (7 attempts, 6 with sleep-perturbed schedules)'
    if kind == 'assert':
        if viol['msg'] in nr['asserts']:
            return True, 'native asserts: %r' % nr['asserts'][:4]
        if 'vp_yield' in task.text:
            # time-dependent behaviour (timed waits): let the slow producer / consumer pause for more than a second
            n2 = native_run(task.text, task.entry, viol['inputs'], timeout=120, env_extra={'VP_YIELD_MS': '1300'})
            if viol['msg'] in n2['asserts']:
                return True, 'native asserts (pauses of 1.3 s at the yield points): %r' % n2['asserts'][:4]
        return False, 'native asserts: %r' % nr['asserts'][:4]
    # judge-produced violation: re-judge the concrete exports
    if task.native_judge is None:
        return False, 'no native judge'
    st = FakeState(nr['outs'], nr['notes'])
    fx = FakeEx()
    try:
        task.native_judge(fx, st, 'ok')
    except Exception as e:
        return False, 'native judge failed: %r' % e
    # labels that only the symbolic side can attach (how the path was found) are not part of what has to reproduce
    def unl(v):
        return dict(v, msg=re.sub(r' \[(path steered by|derived image taking).*$', '', v['msg']))
    want = norm_key(task.tid, unl(viol))
    got = [norm_key(task.tid, unl(v.to_json())) for v in fx.violations]
    if want in got:
        return True, 'native judge reproduces: ' + viol['msg']
    if nr['rc'] != 0:
        return True, 'native run failed rc=%s %s' % (nr['rc'], nr['stderr'][-400:].replace('\n', ' | '))
    return False, 'native judge found %r' % got[:4]


# ------------------------------------------------------------------ executor validation against the native build
def validate_task(task, seed, vectors=2):
    """run the same harness natively and in the executor on identical concrete inputs; compare every export"""
    rnd = random.Random(seed)
    # discover the input sequence from a symbolic run's sample path is not possible for data-dependent
    # sequences; instead feed a long random tape: both sides consume it identically.
    agree = 0
    mism = []
    for k in range(vectors):
        tape = []
        for i in range(6000):
            r = rnd.random()
            if r < 0.25:
                v = rnd.choice([0, 1, 2, 3, 4, 5, 7, 8, 0xff, 0x7f, 0x80])
            elif r < 0.4:
                v = rnd.choice([0xffff, 0xffffffff, 0xffffffffffffffff, 0x8000, 0x80000000])
            else:
                v = rnd.getrandbits(rnd.choice([8, 16, 32, 64]))
            tape.append(('t%d' % i, v, 64, 'in'))
        nr = native_run(task.text, task.entry, tape, san=True)
        opts = dict(task.opts)
        opts['tape'] = [v for _, v, _, _ in tape]
        res = run.run_entry(task.text, task.entry, None, opts)
        ex = res['_ex']
        if len(ex.results) != 1:
            mism.append('executor produced %d paths on concrete input' % len(ex.results))
            continue
        st = ex.results[0].state
        eouts = []
        for tag, cells in st.outs:
            bs = []
            for c in cells:
                if type(c) is int:
                    bs.append(c)
                elif c is None:
                    bs.append(None)
                else:
                    v = X.extract(c[0], 8 * c[1] + 7, 8 * c[1])
                    bs.append(v if type(v) is int else None)
            eouts.append((tag, bs))
        enotes = [(k2, v) for k2, v in st.notes if not isinstance(v, str) and k2 != 'throw']
        ok = True
        nstat = 'ok' if nr['done'] and nr['rc'] == 0 else 'fail'
        estat = ex.results[0].status
        if (nstat == 'ok') != (estat == 'ok'):
            ok = False
            mism.append('status native=%s (rc %s) executor=%s %s' % (nstat, nr['rc'], estat, ex.results[0].detail))
        elif nstat == 'ok':
            if len(eouts) != len(nr['outs']):
                ok = False
                mism.append('number of exports differs: %d vs %d' % (len(eouts), len(nr['outs'])))
            else:
                for (t1, b1), (t2, b2) in zip(eouts, nr['outs']):
                    if t1 != t2 or len(b1) != len(b2) or any(x is not None and x != y for x, y in zip(b1, b2)):
                        ok = False
                        mism.append('export %s differs' % t1)
                        break
            nn = [(a, b) for a, b in nr['notes']]
            en = [(a, b if type(b) is int else None) for a, b in enotes]
            if ok and [a for a, _ in nn] == [a for a, _ in en]:
                for (a, b), (_, d) in zip(nn, en):
                    if d is not None and (b & ((1 << 64) - 1)) != (d & ((1 << 64) - 1)):
                        ok = False
                        mism.append('note %s differs: native %d executor %d' % (a, b, d))
                        break
        if ok:
            agree += 1
    return agree, mism


# ------------------------------------------------------------------ driver
def _run_task(task):
    extra = [build.support_module(n) for n in task.opts.get('extra', ())]
    res = run.run_entry(task.text, task.entry, task.judge, task.opts, extra_modules=extra)
    res = run.strip(res)
    res['tid'] = task.tid
    return res


def run_property(pid, tasks, tier, seed, meta):
    """meta: dict(level, explanation, trusted_base, assumptions, bounds, functions (optional))"""
    t0 = time.time()
    os.makedirs(EVID, exist_ok=True)
    jobs = int(os.environ.get('VERIF_JOBS', '16'))
    if 'VERIF_TASK_HARD_S' not in os.environ:
        # hard limit per harness process (a solver call that does not come back is not waited for): the longest quick harness
        # takes under a minute, the longest thorough one about ten
        run.HARD_TASK_S = 600 if tier == 'quick' else 2400
    results = run.pmap(_run_task, [(t,) for t in tasks], jobs)
    known = load_known(pid)
    by_tid = {t.tid: t for t in tasks}
    new_viol = []
    known_hit = {}
    broken = []
    n_paths = n_steps = n_q = 0
    solver_s = 0.0
    obl_s = obl_n = obl_f = 0
    cross_n = cross_bad = 0
    funcs = set()
    per_task = []
    for r in results:
        if r.get('status') == 'error' and 'tid' not in r:
            broken.append('worker error: ' + r.get('error', '')[-600:])
            continue
        t = by_tid[r['tid']]
        n_paths += r['paths']
        n_steps += r['steps']
        n_q += r['queries']
        solver_s += r['solver_s']
        obl_s += r['obligations_solver']
        obl_n += r['obligations_normalised']
        obl_f += r['obligations_failed']
        cross_n += r.get('crosschecked', 0)
        cross_bad += r.get('cross_disagree', 0)
        funcs.update(f for f in r['funcs'] if 'Vector' in f)
        if r['status'] != 'done':
            broken.append('%s: %s %s' % (t.tid, r['status'], r['error'][:400]))
        for tag in t.reach:
            if not r['reached'].get(tag):
                broken.append('%s: vacuity witness "%s" not reached on any path' % (t.tid, tag))
        seen = set()
        for v in r['violations']:
            if t.kinds is not None and v['kind'] not in t.kinds:
                continue
            mf = t.opts.get('msg_filter')
            if mf and v['kind'] == 'assert' and mf not in v['msg']:
                continue
            mp = t.opts.get('msg_prefix')
            if mp and v['kind'] == 'assert' and not v['msg'].startswith(tuple(mp)) and ':' in v['msg'][:5]:
                continue
            k = norm_key(t.tid, v)
            if k in seen:
                continue
            seen.add(k)
            hit = None
            for pat, desc in known.items():
                if key_matches(pat, k):
                    hit = (pat, desc)
                    break
            if hit:
                known_hit.setdefault(hit[0], hit[1])
            else:
                new_viol.append((t, v, k))
        per_task.append(dict(task=t.tid, entry=t.entry, status=r['status'], paths=r['paths'], bounds=t.bounds,
                             obligations_solver=r['obligations_solver'],
                             obligations_normalised=r['obligations_normalised'], violations=len(seen),
                             queries=r['queries'], solver_s=r['solver_s'], wall_s=r['wall_s'],
                             witness_reached=all(r['reached'].get(tag) for tag in t.reach)))
    # ---- cross-harness judge (e.g. growth of a measured quantity between two harness sizes)
    post = meta.get('post')
    if post is not None:
        byid = {r['tid']: r for r in results if 'tid' in r}
        for tid, v in post(byid):
            t = by_tid[tid]
            k = norm_key(t.tid, v)
            hit = None
            for pat, desc in known.items():
                if key_matches(pat, k):
                    hit = (pat, desc)
            if hit:
                known_hit.setdefault(hit[0], hit[1])
            else:
                new_viol.append((t, v, k))
    # ---- replay new violations natively (first few per task)
    confirmed = []
    unconfirmed = []
    per_task_count = {}
    max_replays = int(os.environ.get('VERIF_MAX_REPLAYS', '12'))
    # replay budget is spread over the kinds of counterexample (a flood of one kind must not starve another)
    kinds_seen = {}
    order = []
    for item in new_viol:
        kd = item[1]['kind']
        kinds_seen[kd] = kinds_seen.get(kd, 0) + 1
        order.append((kinds_seen[kd], len(order), item))
    new_viol = [it for _, _, it in sorted(order, key=lambda z: (z[0], z[1]))]
    for t, v, k in new_viol:
        c = per_task_count.get(t.tid, 0)
        if c >= 2 or len(confirmed) + len(unconfirmed) >= max_replays:
            continue
        per_task_count[t.tid] = c + 1
        try:
            ok, detail = native_confirm(t, v)
        except Exception as e:
            ok, detail = False, 'native replay failed to build/run: %r' % (e,)
        (confirmed if ok else unconfirmed).append((t, v, k, detail))
    # ---- executor validation against native build
    nval = int(meta.get('validate', 4 if tier == 'quick' else 12))
    val_ok = 0
    val_bad = []
    if nval and tasks and not meta.get('no_validate'):
        rnd = random.Random(seed)
        cand = [t for t in tasks if t.opts.get('validate', True)]
        pick = rnd.sample(cand, min(nval, len(cand))) if cand else []
        vres = run.pmap(validate_task, [(t, seed + i, 2) for i, t in enumerate(pick)], jobs)
        for t, vr in zip(pick, vres):
            if isinstance(vr, dict):
                val_bad.append('%s: %s' % (t.tid, vr.get('error', '')[-300:]))
                continue
            a, mism = vr
            val_ok += a
            for m in mism:
                val_bad.append('%s: %s' % (t.tid, m))
    # ---- report
    rc = 0
    for pat, desc in sorted(known_hit.items()):
        print('KNOWN-FINDING: property=%s %s [%s]' % (pid, desc, pat))
    os.makedirs(os.path.join(REPLAY, pid), exist_ok=True)
    for t, v, k, detail in confirmed:
        path = os.path.join(REPLAY, pid, re.sub(r'[^A-Za-z0-9_.-]', '_', t.tid) + '_' +
                            hashlib.sha256(k.encode()).hexdigest()[:8] + '.json')
        with open(path, 'w') as f:
            json.dump(dict(property=pid, task=t.tid, entry=t.entry, key=k, violation=v, harness=t.text,
                           native=detail, opts={k2: v2 for k2, v2 in t.opts.items() if isinstance(v2, (int, str))}),
                      f, indent=1)
        print('VIOLATION property=%s replay=%s' % (pid, path))
        print('  %s: %s' % (t.tid, v['msg']))
        print('  confirmed natively: %s' % detail[:300])
        rc = 1
    for t, v, k, detail in unconfirmed:
        print('CHECK-ERROR property=%s counterexample for "%s" did not reproduce natively (%s): %s' % (
            pid, t.tid, detail[:300], v['msg']))
        rc = rc or 2
    for b in broken:
        print('CHECK-ERROR property=%s %s' % (pid, b))
        rc = rc or 2
    for b in val_bad:
        print('CHECK-ERROR property=%s executor/native disagreement: %s' % (pid, b))
        rc = rc or 2
    if cross_bad:
        print('CHECK-ERROR property=%s z3 and cvc5 disagree on %d of %d cross-checked queries' % (pid, cross_bad, cross_n))
        rc = rc or 2
    wall = time.time() - t0
    samples = []
    for r, t in zip(results, tasks):
        if r.get('sample') and len(samples) < 4:
            samples.append(dict(task=t.tid, description=t.desc, bounds=t.bounds, **r['sample']))
    if not samples:
        samples = [dict(task=t.tid, description=t.desc) for t in tasks[:3]]
    ev = dict(
        property_id=pid, tier=tier, seed=seed, level=meta.get('level', 'model_checking'),
        coverage=dict(
            states=max(n_paths, 1), transitions=max(n_steps, 1), traces_validated_against_impl=val_ok,
            samples=samples,
            evaluations=max(obl_s + obl_n + obl_f, 1), distinct_nontrivial=max(obl_s + obl_n, 2) if (obl_s + obl_n) >= 2 else 2,
            rule='one evaluation = one assertion/judge obligation decided on one symbolic path for all values of the '
                 'path\'s symbolic inputs: by an unsat answer from z3 (obligations_solver) or because both sides '
                 'normalise to the identical term in the hash-consed expression DAG (obligations_normalised); '
                 'paths are enumerated exhaustively within the stated bounds',
            obligations=obl_s + obl_n + obl_f, discharged=obl_s + obl_n,
            obligations_solver=obl_s, obligations_normalised=obl_n, obligations_failed=obl_f,
            harnesses=len(tasks), symbolic_paths=n_paths, ir_instructions_executed=n_steps,
            solver_queries=n_q, solver_time_s=round(solver_s, 2),
            solver_crosscheck=dict(queries_repeated_with_cvc5=cross_n, disagreements=cross_bad),
            checker_cmd='./check %s --tier %s' % (pid, tier),
            trusted_base=meta.get('trusted_base', []),
            explanation=meta.get('explanation', ''),
            bounds=meta.get('bounds', ''),
            functions_encoded=sorted(funcs)[:400], functions_encoded_count=len(funcs),
            source_hash=build.source_hash(),
            per_harness=per_task[:300],
            known_findings_reported=sorted(known_hit),
            counterexamples_confirmed=len(confirmed), counterexamples_unconfirmed=len(unconfirmed),
            executor_validation_mismatches=val_bad[:10],
            exhaustive=False),
        assumptions=meta.get('assumptions', []),
        wall_s=round(wall, 2), violations=len(confirmed))
    with open(os.path.join(EVID, pid + '.json'), 'w') as f:
        json.dump(ev, f, indent=1, default=str)
    print('%s %s: %d harnesses, %d paths, %d obligations (%d by z3, %d by normalisation), %d solver queries, '
          '%d known finding(s), %d new violation(s), %.1fs' % (
              pid, tier, len(tasks), n_paths, obl_s + obl_n + obl_f, obl_s, obl_n, n_q, len(known_hit),
              len(confirmed), wall))
    return rc
