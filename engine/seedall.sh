#!/bin/sh
# usage: seedall.sh <cNN> <ID> [<other IDs to also run>...]   -- confirm both mutations of an agent, run checks against them
p=$1; ID=$2; shift 2
cd /verif
for m in m1 m2; do
  if [ -f /tmp/wt/$p/out/$m/patch.diff ]; then
    echo "== $ID-$m confirm"; python3-vt engine/seedconfirm.py /tmp/wt/$p /tmp/wt/$p/out/$m $ID $ID-$m 2>&1 | grep '"confirmed"\|tests_with_patch\|demo_fails_with_patch\|demo_without\|failed\|does not' | tr '\n' ' '; echo
    if [ -f seeded/$ID-$m/patch.diff ]; then
      echo "== $ID-$m checks"; python3-vt engine/seedtest.py seeded/$ID-$m/patch.diff $ID "$@" 2>&1 | tee seeded/$ID-$m/checks.txt
    fi
  fi
done
