"""Summarise seeded/<name>/checks.txt into a markdown table (seeded/RESULTS.md)."""
import glob
import json
import os
import re

VERIF = os.path.dirname(os.path.dirname(os.path.abspath(__file__)))
rows = []
for d in sorted(glob.glob(os.path.join(VERIF, 'seeded', '*'))):
    if not os.path.isdir(d):
        continue
    name = os.path.basename(d)
    meta = json.load(open(os.path.join(d, 'meta.json'))) if os.path.exists(os.path.join(d, 'meta.json')) else {}
    own = meta.get('property', name.split('-')[0].replace('R2_', ''))
    files = ', '.join(sorted({re.sub(r'\s*\|.*', '', f).strip().split('/')[-1] for f in meta.get('results', {}).get('files_changed', []) if '|' in f}))
    if not files:
        try:
            files = ', '.join(sorted(set(re.findall(r'^\+\+\+ b/src/Vector/BLF/(\S+)', open(os.path.join(d, 'patch.diff')).read(), re.M))))
        except OSError:
            files = ''
    res = {}
    first = {}
    p = os.path.join(d, 'checks.txt')
    if os.path.exists(p):
        for ln in open(p):
            m = re.match(r'(C\d+) rc=(\d+) violations=(\d+) check-errors=(\d+) (\d+)s\s*(.*)', ln)
            if m:
                res[m.group(1)] = (int(m.group(2)), int(m.group(3)), int(m.group(4)))
                first[m.group(1)] = m.group(6).strip()
    def verdict(pid):
        if pid not in res:
            return '-'
        rc, v, e = res[pid]
        if v > 0:
            return 'VIOLATION'
        if rc != 0:
            return 'alarm (exit %d, no replay)' % rc
        return 'missed'
    others = ', '.join('%s: %s' % (k, verdict(k)) for k in sorted(res) if k != own)
    # regression of the own check on the final tree (engine/seedmatrix_final.sh / the time-capped run at the end)
    fin = '-'
    pf = os.path.join(d, 'final.txt')
    if os.path.exists(pf):
        for ln in open(pf):
            m = re.match(r'(C\d+) rc=(-?\d+) violations=(\d+) check-errors=(\d+)', ln)
            if m and m.group(1) == own:
                fin = 'VIOLATION' if int(m.group(3)) > 0 else ('alarm (exit %s)' % m.group(2) if int(m.group(2)) != 0 else 'missed')
    rows.append((name, own, files, verdict(own), others, fin, first.get(own, '')[:110]))
out = ['| seed | property | files changed | own check | other checks run | own check, final tree | first report |', '|---|---|---|---|---|---|---|']
for r in rows:
    out.append('| %s | %s | %s | %s | %s | %s | %s |' % r)
caught = sum(1 for r in rows if r[3] == 'VIOLATION')
alarm = sum(1 for r in rows if r[3].startswith('alarm'))
out.append('')
out.append('%d seeds; own property check reports a confirmed VIOLATION for %d, a non-zero exit without native replay for %d, misses %d.' % (
    len(rows), caught, alarm, len(rows) - caught - alarm))
open(os.path.join(VERIF, 'seeded', 'RESULTS.md'), 'w').write('\n'.join(out) + '\n')
print('\n'.join(out))
