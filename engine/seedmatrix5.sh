#!/bin/sh
# round 5 seeds
cd /verif
t() { n=$1; shift; [ -f seeded/$n/patch.diff ] || return; echo "== $n"; python3-vt engine/seedtest.py seeded/$n/patch.diff "$@" 2>&1 | tee seeded/$n/checks.txt; }
t R5-C02-m1 C02 C01
t R5-C02-m2 C02
t R5-C05-m1 C05
t R5-C05-m2 C05
t R5-C07-m1 C07 C09
t R5-C07-m2 C07 C09
t R5-C09-m1 C09 C10
t R5-C09-m2 C09
t R5-C12-m1 C12
t R5-C12-m2 C12
t R5-C16-m1 C16 C06
t R5-C16-m2 C16
t R5-C17-m1 C17
t R5-C17-m2 C17 C01
