"""llsym: path-forking symbolic executor for clang-14 LLVM IR with z3.

Memory model: every object (global, alloca, heap block) lives at a concrete,
never re-used address; cells are bytes that are concrete ints, slices of
symbolic expressions, or None (never written).  Pointers are 64-bit values like
any other; a symbolic pointer or extent is concretised by complete enumeration
of its feasible values under the path condition (forking), so each path has
concrete control over addresses while data stays symbolic.
"""
import bisect
import os
import time
import sys

from expr import E
import expr as X
import irparse

M64 = (1 << 64) - 1
STACK_BASE = 0x7f0000000000
HEAP_BASE = 0x600000000000
EXC_BASE = 0x500000000000


class PathEnd(Exception):
    def __init__(s, status, detail=''):
        s.status = status
        s.detail = detail


class ForkSignal(Exception):
    def __init__(s, states):
        s.states = states


class Inconclusive(Exception):
    pass


class Obj(object):
    __slots__ = ('base', 'size', 'data', 'owner', 'kind', 'freed', 'name', 'ro', 'tag')

    def __init__(s, base, size, data, owner, kind, name=''):
        s.base = base
        s.size = size
        s.data = data
        s.owner = owner
        s.kind = kind
        s.freed = False
        s.name = name
        s.ro = False
        s.tag = None

    def clone(s, owner):
        o = Obj(s.base, s.size, list(s.data), owner, s.kind, s.name)
        o.freed = s.freed
        o.ro = s.ro
        o.tag = s.tag
        return o


class Frame(object):
    __slots__ = ('fn', 'regs', 'code', 'ip', 'label', 'allocas', 'blocks', 'rt')

    def __init__(s, fn, rt=False):
        s.fn = fn
        s.rt = rt
        s.regs = {}
        s.blocks = fn.blocks
        s.label = fn.entry
        s.code = fn.blocks[fn.entry][1]
        s.ip = 0
        s.allocas = []

    def copy(s):
        f = Frame.__new__(Frame)
        f.fn = s.fn
        f.regs = dict(s.regs)
        f.blocks = s.blocks
        f.label = s.label
        f.code = s.code
        f.ip = s.ip
        f.allocas = list(s.allocas)
        f.rt = s.rt
        return f


class Thread(object):
    __slots__ = ('tid', 'frames', 'status', 'wait', 'caught', 'state_ptr', 'name', 'relock')

    def __init__(s, tid):
        s.tid = tid
        s.frames = []
        s.status = 'run'      # run | cv | join | mutex | done
        s.wait = None
        s.caught = []         # stack of (obj, tinfo)
        s.state_ptr = 0
        s.name = ''
        s.relock = None

    def copy(s):
        t = Thread(s.tid)
        t.frames = [f.copy() for f in s.frames]
        t.status = s.status
        t.wait = s.wait
        t.caught = list(s.caught)
        t.state_ptr = s.state_ptr
        t.name = s.name
        t.relock = s.relock
        return t


_state_ids = [0]


class State(object):
    def __init__(s):
        _state_ids[0] += 1
        s.id = _state_ids[0]
        s.objs = {}
        s.bases = []
        s.threads = []
        s.cur = 0
        s.pc = []
        s.sub = {}
        s.submemo = {}
        s.heap_next = HEAP_BASE
        s.stack_next = STACK_BASE
        s.inputs = []        # (name, width, kind) in creation order
        s.nin = 0
        s.ngarb = 0
        s.model = None       # dict satisfying pc (or None = unknown)
        s.mutex = {}         # addr -> tid
        s.events = []
        s.outs = []
        s.notes = []
        s.steps = 0
        s.excs = {}          # exception obj -> [tinfo, refcount]
        s.flags = {}
        s.locks_held = {}    # tid -> set of mutex addr
        s.assumed_false = False
        s.live_heap = 0
        s.peak_heap = 0
        s.switch = False
        s.watch = {}         # object base -> [lo, hi, set(written offsets), tag, set(read offsets)]
        s.cmodel = None      # concolic mode: concrete witness {var name: value} whose path is followed
        s.preempts = 0
        s.sync_points = 0
        s.preempt_pending = False
        s.force_next = None
        s.vc = {}            # tid -> {tid: clock}   (happens-before)
        s.sync_vc = {}       # sync object address -> vector clock released there
        s.shadow = {}        # (base, off) -> [write (tid, clk) | None, {tid: clk} reads]
        s.sched_log = []
        s.last_sync = None    # (kind L|U|W|S, tid, per-thread count of that kind) of the latest synchronisation point
        s.sync_cnt = {}

    def fork(s):
        n = State.__new__(State)
        _state_ids[0] += 1
        n.id = _state_ids[0]
        _state_ids[0] += 1
        s.id = _state_ids[0]        # both sides lose ownership of shared objects
        n.objs = dict(s.objs)
        n.bases = list(s.bases)
        n.threads = [t.copy() for t in s.threads]
        n.cur = s.cur
        n.pc = list(s.pc)
        n.sub = dict(s.sub)
        n.submemo = {}
        n.heap_next = s.heap_next
        n.stack_next = s.stack_next
        n.inputs = list(s.inputs)
        n.nin = s.nin
        n.ngarb = s.ngarb
        n.model = s.model
        n.mutex = dict(s.mutex)
        n.events = list(s.events)
        n.outs = list(s.outs)
        n.notes = list(s.notes)
        n.steps = s.steps
        n.excs = {k: list(v) for k, v in s.excs.items()}
        n.flags = dict(s.flags)
        n.locks_held = {k: set(v) for k, v in s.locks_held.items()}
        n.assumed_false = s.assumed_false
        n.live_heap = s.live_heap
        n.peak_heap = s.peak_heap
        n.switch = s.switch
        n.watch = {k: [v[0], v[1], set(v[2]), v[3], set(v[4])] for k, v in s.watch.items()}
        n.cmodel = s.cmodel
        n.preempts = s.preempts
        n.sync_points = s.sync_points
        n.preempt_pending = False
        n.force_next = None
        n.vc = {k: dict(v) for k, v in s.vc.items()}
        n.sync_vc = {k: dict(v) for k, v in s.sync_vc.items()}
        n.shadow = {k: [v[0], dict(v[1])] for k, v in s.shadow.items()} if s.shadow else {}
        n.sched_log = list(s.sched_log)
        n.last_sync = s.last_sync
        n.sync_cnt = dict(s.sync_cnt)
        return n

    # ---- objects
    def add_obj(s, o):
        s.objs[o.base] = o
        if s.bases and o.base < s.bases[-1]:
            bisect.insort(s.bases, o.base)
        else:
            s.bases.append(o.base)

    def find(s, addr):
        i = bisect.bisect_right(s.bases, addr) - 1
        if i < 0:
            return None
        o = s.objs[s.bases[i]]
        if addr - o.base > o.size:
            return None
        return o

    def wobj(s, o):
        if o.owner != s.id:
            o = o.clone(s.id)
            s.objs[o.base] = o
        return o

    def simp(s, e):
        if type(e) is not E or not s.sub:
            return e
        return X.substitute(e, s.sub, s.submemo)

    def add_pc(s, c):
        s.pc.append(c)
        if s.model is not None and X.evaluate(c, s.model) != 1:
            s.model = None


class Solver(object):
    def __init__(s, timeout_ms=120000):
        z3 = X.z3mod()
        s.z3 = z3
        s.s = z3.SolverFor('QF_BV')
        s.s.set('timeout', timeout_ms)
        s.trail = []
        s.queries = 0
        s.sat = 0
        s.unsat = 0
        s.time = 0.0
        s.maxq = 0.0
        s.cross_budget = 0       # number of queries still to be cross-checked with cvc5 in this run
        s.cross_every = 37
        s.cross_done = 0
        s.cross_disagree = 0

    def crosscheck(s, z3_sat):
        """second opinion from cvc5 on the query that is on the solver stack right now (sampled)"""
        import subprocess
        import tempfile
        s.cross_budget -= 1
        try:
            txt = '(set-logic QF_BV)\n' + s.s.to_smt2()
            with tempfile.NamedTemporaryFile('w', suffix='.smt2', delete=False) as f:
                f.write(txt)
                path = f.name
            r = subprocess.run(['cvc5', '--lang=smt2', '--tlimit=20000', path], stdout=subprocess.PIPE, stderr=subprocess.PIPE,
                               text=True, timeout=40)
            import os
            os.unlink(path)
            ans = r.stdout.strip().split('\n')[0] if r.stdout.strip() else ''
            if ans in ('sat', 'unsat'):
                s.cross_done += 1
                if (ans == 'sat') != bool(z3_sat):
                    s.cross_disagree += 1
        except Exception:
            pass

    def sync(s, pc):
        t = s.trail
        n = min(len(t), len(pc))
        i = 0
        while i < n and t[i] is pc[i]:
            i += 1
        if i < len(t):
            s.s.pop(len(t) - i)
            del t[i:]
        for c in pc[i:]:
            s.s.push()
            s.s.add(X.to_z3_bool(c))
            t.append(c)

    def check(s, pc, extra=(), want_model=True):
        """-> (True, model-dict) | (False, None)"""
        t0 = time.time()
        s.sync(pc)
        s.s.push()
        for c in extra:
            s.s.add(X.to_z3_bool(c))
        r = s.s.check()
        s.queries += 1
        res = None
        if r == s.z3.sat:
            s.sat += 1
            m = None
            if want_model:
                zm = s.s.model()
                m = {}
                for d in zm.decls():
                    v = zm[d]
                    try:
                        m[d.name()] = v.as_long()
                    except Exception:
                        pass
            res = (True, m)
        elif r == s.z3.unsat:
            s.unsat += 1
            res = (False, None)
        if s.cross_budget > 0 and res is not None and (s.queries % s.cross_every) == 0:
            s.crosscheck(res[0])
        s.s.pop()
        dt = time.time() - t0
        s.time += dt
        s.maxq = max(s.maxq, dt)
        if res is None:
            raise Inconclusive('solver returned unknown: ' + str(s.s.reason_unknown()))
        return res


class Violation(object):
    def __init__(s, kind, msg, model, inputs, where='', extra=None):
        s.kind = kind
        s.msg = msg
        s.model = model
        s.inputs = inputs
        s.where = where
        s.extra = extra or {}

    def input_values(s):
        """values for the native replay: the model's value, and for inputs the solver left unconstrained a
        pseudo-random value derived from the input's name (arbitrary data instead of all zeros)"""
        import hashlib
        m = s.model or {}
        out = []
        for n, w, k in s.inputs:
            if n in m:
                v = m[n]
            elif k == 'choice':
                v = 0
            else:
                v = int.from_bytes(hashlib.sha256(n.encode()).digest()[:8], 'little')
            out.append((n, v & ((1 << w) - 1), w, k))
        return out

    def to_json(s):
        return dict(kind=s.kind, msg=s.msg, where=s.where, extra=s.extra,
                    inputs=[[n, v, w, k] for n, v, w, k in s.input_values()])


class PathResult(object):
    def __init__(s, status, detail, st):
        s.status = status
        s.detail = detail
        s.pc_len = len(st.pc)
        s.outs = st.outs
        s.notes = st.notes
        s.events = st.events
        s.inputs = st.inputs
        s.steps = st.steps
        s.state = st
        s.peak_heap = st.peak_heap


class Executor(object):
    def __init__(s, prog, models=None, max_steps=2000000, max_paths=200000, enum_limit=70,
                 timeout_ms=120000, sched='rr', verbose=False):
        s.prog = prog
        s.solver = Solver(timeout_ms)
        s.models = {}
        s.max_steps = max_steps
        s.max_rss_mb = int(os.environ.get('VERIF_MAX_RSS_MB', '3500'))
        s.child_first = False
        s.nundef = 0
        s.heap_shift = 0
        s.budget_tick = 0
        s.max_paths = max_paths
        s.enum_limit = enum_limit
        s.sched = sched
        s.verbose = verbose
        s.violations = []
        s.results = []
        s.obl_solver = 0        # assertions discharged by an unsat answer
        s.obl_concrete = 0      # assertions that were concretely true
        s.obl_failed = 0
        s.forks = 0
        s.instrs = 0
        s.typeids = {}
        s.funcs_run = set()
        s.string_cache = {}
        s.trace_mem = None
        s.hooks = {}
        s.alloc_sites = False
        s.races_seen = set()
        s.stop_on_assert = False
        s.reached = {}
        s.on_path_end = None
        s.keep_states = True
        s.max_wall = 0
        s.limit_is_hang = False
        s.atomic_now = False
        s.preempt_bound = 0
        s.preempt_in_cs = False
        s.preempt_range = None
        s.race_detect = False
        s.tape = None
        s.concolic_tape = None
        s.alloc_policy = None
        s.max_alloc = 1 << 28      # larger requests fail (bad_alloc)
        import models as MD
        MD.install(s)
        if models:
            s.models.update(models)
        s.dispatch = {
            'bin': s.i_bin, 'icmp': s.i_icmp, 'cast': s.i_cast, 'gep': s.i_gep, 'load': s.i_load,
            'store': s.i_store, 'alloca': s.i_alloca, 'select': s.i_select, 'jmp': s.i_jmp, 'br': s.i_br,
            'switch': s.i_switch, 'ret': s.i_ret, 'unreachable': s.i_unreachable, 'resume': s.i_resume,
            'call': s.i_call, 'extractvalue': s.i_extractvalue, 'insertvalue': s.i_insertvalue,
            'atomicrmw': s.i_atomicrmw, 'cmpxchg': s.i_cmpxchg, 'copy': s.i_copy,
            'unsupported': s.i_unsupported, 'landingpad': s.i_landingpad_stray,
        }

    # ------------------------------------------------------------------ setup
    def initial_state(s):
        st = State()
        st.heap_next += s.heap_shift          # (twin runs with a shifted heap expose output that depends on addresses)
        for n, a, data, const in s.prog.global_images():
            o = Obj(a, len(data), data, -1, 'global', n)   # owner -1: shared, cloned on first write
            o.ro = const
            st.add_obj(o)
        return st

    def check_rss(s, pending):
        """memory budget of one worker: a harness that a change to the library makes explode ends inconclusive
        instead of taking the machine down"""
        try:
            rss = int(open('/proc/self/statm').read().split()[1]) * 4096 >> 20
        except (OSError, ValueError, IndexError):
            return
        if rss > s.max_rss_mb:
            raise Inconclusive('memory budget of %d MiB exhausted after %d paths (%d states pending)' % (
                s.max_rss_mb, len(s.results), pending + 1))

    def run(s, entry, args=()):
        s.entry_name = entry
        st = s.initial_state()
        if s.concolic_tape is not None:
            st.cmodel = {}
        th = Thread(0)
        th.name = 'main'
        st.threads.append(th)
        # global constructors first, then the entry
        fn = s.prog.get(entry)
        if fn is None:
            raise KeyError(entry)
        fr = Frame(fn, True)
        for p, a in zip(fn.params, args):
            fr.regs[p] = a
        th.frames.append(fr)
        for cname in reversed(s.global_ctors()):
            cf = s.prog.get(cname)
            if cf is not None:
                th.frames.append(Frame(cf, True))
        work = [st]
        t_start = time.time()
        while work:
            st = work.pop()
            if len(s.results) >= s.max_paths:
                raise Inconclusive('path limit %d reached' % s.max_paths)
            if s.max_wall and time.time() - t_start > s.max_wall:
                raise Inconclusive('wall-clock budget of %ds exhausted after %d paths (%d states pending)' % (
                    s.max_wall, len(s.results), len(work) + 1))
            s.budget_tick += 1
            if not (s.budget_tick & 0xff):
                s.check_rss(len(work))
            try:
                s.run_state(st, work)
            except PathEnd as pe:
                s.finish(st, pe.status, pe.detail)
        return s.results

    def global_ctors(s):
        out = []
        for m in s.prog.modules:
            g = m.globals.get('@llvm.global_ctors')
            if g and g['init'] and g['init'][0] == 'agg':
                for et, ev in g['init'][1]:
                    if ev[0] == 'agg':
                        fv = ev[1][1][1]
                        if fv[0] == 'glob':
                            out.append(s.prog.q(m, fv[1]))
        return out

    def finish(s, st, status, detail):
        if s.verbose:
            print('  path end: %s %s (steps %d, pc %d)' % (status, detail, st.steps, len(st.pc)), file=sys.stderr)
        if s.on_path_end is not None and status in ('ok', 'exit'):
            s.on_path_end(s, st, status)
        s.results.append(PathResult(status, detail, st))
        if status not in ('ok', 'assume_false', 'exit'):
            if status == 'limit' and s.limit_is_hang:
                model = s.model_for(st)
                s.violations.append(Violation('hang', 'no termination within %d executed instructions (%s)' % (
                    s.max_steps, s.where(st).split(' <- ')[0]), model, st.inputs, s.where(st),
                    extra=dict(schedule=list(st.sched_log))))
                return
            if status in ('limit', 'unsupported', 'enum_limit'):
                return
            model = s.model_for(st)
            s.violations.append(Violation(status, detail, model, st.inputs, s.where(st), extra=dict(schedule=list(st.sched_log))))

    def where(s, st):
        try:
            th = st.threads[st.cur]
            return ' <- '.join(f.fn.name for f in reversed(th.frames[-6:]))
        except Exception:
            return ''

    def model_for(s, st):
        """a model of the path condition, complete over the variables the path condition mentions (a cached model may
        leave out a variable whose value 0 - the engine's convention for a missing variable - satisfies the constraints
        added after it was cached; only variables the path condition never mentions are unconstrained)"""
        m = st.model
        if m is None:
            ok, m = s.solver.check(st.pc)
            if not ok:
                return None
        m = dict(m)
        for c in st.pc:
            if type(c) is E:
                for v in X.free_vars(c):
                    m.setdefault(v.a[0], 0)
        st.model = m
        return m

    # ------------------------------------------------------------------ main loop
    def run_state(s, st, work):
        disp = s.dispatch
        while True:
            th = st.threads[st.cur]
            if st.preempt_pending:
                st.preempt_pending = False
                st.sync_points += 1
                k = st.sync_points
                if st.preempts < s.preempt_bound and th.status == 'run' and th.frames and \
                        (s.preempt_range is None or s.preempt_range[0] <= k < s.preempt_range[1]):
                    for t in st.threads:
                        if t.tid != th.tid and t.status == 'run' and t.frames:
                            o = st.fork()
                            o.preempts += 1
                            o.switch = True
                            o.force_next = t.tid
                            o.sched_log.append((k, th.tid, t.tid, st.last_sync))
                            work.append(o)
                            s.forks += 1
            if th.status != 'run' or not th.frames or st.switch:
                s.schedule(st)
                continue
            fr = th.frames[-1]
            code = fr.code
            regs = fr.regs
            try:
                while True:
                    ins = code[fr.ip]
                    st.steps += 1
                    r = disp[ins[0]](st, th, fr, ins)
                    if r is not None:
                        break           # control transfer: re-fetch frame
                    fr.ip += 1
                if st.steps > s.max_steps:
                    raise PathEnd('limit', 'step limit %d' % s.max_steps)
                s.budget_tick += 1
                if not (s.budget_tick & 0x3ff):
                    s.check_rss(len(work))
            except ForkSignal as fs:
                s.forks += len(fs.states) - 1
                for o in fs.states[1:]:
                    work.append(o)
                if fs.states[0] is not st:
                    work.append(fs.states[0])
                    return
                continue

    # ------------------------------------------------------------------ scheduling
    def schedule(s, st):
        n = len(st.threads)
        th = st.threads[st.cur]
        if th.status == 'run' and not th.frames:
            th.status = 'done'
            if th.tid == 0:
                raise PathEnd('ok', '')
            # wake joiners
            if s.race_detect:
                s.vc_release(st, th.tid, ('t', th.tid))
            for t in st.threads:
                if t.status == 'join' and t.wait == th.tid:
                    t.status = 'run'
                    if s.race_detect:
                        s.vc_acquire(st, t.tid, ('t', th.tid))
        st.switch = False
        for _ in range(2 * n + 2):
            runnable = [t.tid for t in st.threads if t.status == 'run' and t.frames]
            if not runnable:
                blocked = [(t.tid, t.name, t.status, t.wait) for t in st.threads if t.status != 'done']
                raise PathEnd('deadlock', 'all threads blocked: %r' % (blocked,))
            pick = None
            if st.force_next is not None:
                t = st.threads[st.force_next]
                st.force_next = None
                if t.status == 'run' and t.frames:
                    pick = t
            if pick is None:
                for k in range(1, n + 1):
                    c = (st.cur + k) % n
                    t = st.threads[c]
                    if t.status == 'run' and t.frames:
                        pick = t
                        break
            if pick.relock is not None:
                m = pick.relock
                if st.mutex.get(m) is None:
                    st.mutex[m] = pick.tid
                    h = st.locks_held.setdefault(pick.tid, set())
                    h.add(m)
                    pick.relock = None
                    if s.race_detect:
                        s.vc_acquire(st, pick.tid, ('m', m))
                else:
                    pick.status = 'mutex'
                    pick.wait = m
                    continue
            st.cur = pick.tid
            return
        raise PathEnd('deadlock', 'scheduler found no thread able to take its mutex')

    def block(s, st, th, kind, wait):
        """current thread blocks after finishing the current (model) call"""
        th.status = kind
        th.wait = wait

    # ------------------------------------------------------------------ values
    def val(s, regs, o):
        if type(o) is str:
            return regs[o]
        return o

    def need_int(s, st, v, what='value'):
        """concrete int, forking over all feasible values if needed"""
        if type(v) is not E:
            return v
        v2 = st.simp(v)
        if type(v2) is not E:
            return v2
        v2 = s.pin_stale(st, v2, what)
        if type(v2) is not E:
            return v2
        s.concretize(st, v2, what)

    def pin_eq(s, st, c):
        """a path constraint of the form  term == constant  becomes a substitution"""
        if type(c) is E and c.op == 'eq' and type(c.a[0]) is not E and type(c.a[1]) is E:
            st.sub[c.a[1]] = c.a[0]
            st.submemo = {}

    def pin_stale(s, st, e, what):
        """values the library is supposed to derive itself (harness inputs named stale:*) must not steer
        control flow or extents; report once and pin them to one witness value so the path stays single"""
        if type(e) is not E:
            return e
        sv = [v for v in X.free_vars(e) if v.a[0].startswith('stale:')]
        if not sv:
            return e
        m = s.model_for(st)
        if m is None:
            raise PathEnd('assume_false', '')
        for v in sv:
            nm = v.a[0].split('#')[0][6:]
            st.flags['stale_seen'] = nm
            s.violations.append(Violation('stale_dependence', '%s depends on the caller-visible size/length field '
                                          '"%s" that the library is expected to derive itself (in %s)' % (
                                              what, nm, s.where(st).split(' <- ')[0]),
                                          m, list(st.inputs), s.where(st)))
            val = m.get(v.a[0], 0) & ((1 << v.w) - 1)
            st.pc.append(X.eq(v, val, v.w))
            st.sub[v] = val
        st.submemo = {}
        return st.simp(e)

    def atoms(s, e, out):
        if type(e) is not E:
            return
        if e.op in ('add', 'sub', 'mul', 'zext', 'sext', 'shl') and e.w > 1:
            for x in e.a:
                s.atoms(x, out)
            return
        if e not in out:
            out.append(e)

    def concretize(s, st, e, what):
        """enumerate all feasible values of the non-arithmetic atoms of e; raises ForkSignal"""
        at = []
        s.atoms(e, at)
        if not at:
            at = [e]
        # one atom at a time keeps the enumeration small
        a = at[0]
        if st.cmodel is not None:
            v = X.evaluate(a, st.cmodel)
            st.flags.setdefault('cflips', []).append((len(st.pc), X.ne(a, v, a.w)))
            st.pc.append(X.eq(a, v, a.w))
            st.sub[a] = v
            st.submemo = {}
            raise ForkSignal([st])
        vals = s.enum_values(st, a)
        if not vals:
            raise PathEnd('assume_false', 'infeasible at concretisation')
        states = []
        for i, (v, m) in enumerate(vals):
            c = st if i == len(vals) - 1 else st.fork()
            c.add_pc(X.eq(a, v, a.w))
            c.sub[a] = v
            c.submemo = {}
            c.model = m
            states.append(c)
        states.reverse()
        if len(states) == 1:
            # no real fork: value was implied; continue in place
            raise ForkSignal([st])
        raise ForkSignal(states)

    def enum_values(s, st, a):
        vals = []
        extra = []
        while True:
            ok, m = s.solver.check(st.pc, extra)
            if not ok:
                break
            v = X.evaluate(a, m)
            vals.append((v, m))
            extra.append(X.ne(a, v, a.w))
            if len(vals) > s.enum_limit:
                raise PathEnd('enum_limit', 'more than %d feasible values for %s' % (s.enum_limit, X.show(a)))
        return vals

    def feasible(s, st, c):
        """is pc & c satisfiable?  uses the cached model first"""
        if st.model is not None and X.evaluate(c, st.model) == 1:
            return True, st.model
        ok, m = s.solver.check(st.pc, (c,))
        return ok, m

    def branch(s, st, c):
        """decide a symbolic i1: returns True/False for the state that continues here;
        if both are feasible a forked state taking the other side is returned too"""
        c = st.simp(c)
        if type(c) is not E:
            return bool(c), None
        sv = [v for v in X.free_vars(c) if v.a[0].startswith('stale:')]
        if sv and st.cmodel is None:
            # a branch steered by a size/length member the library should derive itself: reported, then BOTH feasible
            # outcomes are followed, each with the stale members pinned to a witness of that outcome
            nc = X.lnot(c)
            ok_t, m_t = s.solver.check(st.pc, (c,))
            ok_f, m_f = s.solver.check(st.pc, (nc,))
            for v in sv:
                nm = v.a[0].split('#')[0][6:]
                st.flags['stale_seen'] = nm
                s.violations.append(Violation('stale_dependence', 'a branch depends on the caller-visible size/length field '
                                              '"%s" that the library is expected to derive itself (in %s)' % (
                                                  nm, s.where(st).split(' <- ')[0]),
                                              m_t if ok_t else m_f, list(st.inputs), s.where(st)))
            if not ok_t and not ok_f:
                raise PathEnd('assume_false', 'infeasible path')
            other = None
            if ok_t and ok_f:
                other = st.fork()
                other.pc.append(nc)
                for v in sv:
                    val = m_f.get(v.a[0], 0) & ((1 << v.w) - 1)
                    other.pc.append(X.eq(v, val, v.w))
                    other.sub[v] = val
                other.submemo = {}
                other.model = None
            side, m = (True, m_t) if ok_t else (False, m_f)
            st.pc.append(c if side else nc)
            for v in sv:
                val = m.get(v.a[0], 0) & ((1 << v.w) - 1)
                st.pc.append(X.eq(v, val, v.w))
                st.sub[v] = val
            st.submemo = {}
            st.model = None
            return side, other
        if type(c) is not E:
            return bool(c), None
        if st.cmodel is not None:
            # concolic: follow the path of the concrete witness, keep the condition as a constraint
            d = X.evaluate(c, st.cmodel)
            k = c if d else X.lnot(c)
            st.flags.setdefault('cflips', []).append((len(st.pc), X.lnot(k)))     # candidates for a generational flip
            st.pc.append(k)
            s.pin_eq(st, k)
            return bool(d), None
        nc = X.lnot(c)
        if st.model is not None:
            mv = X.evaluate(c, st.model)
            if mv == 1:
                ok_t, m_t = True, st.model
                ok_f, m_f = s.solver.check(st.pc, (nc,))
            else:
                ok_f, m_f = True, st.model
                ok_t, m_t = s.solver.check(st.pc, (c,))
        else:
            ok_t, m_t = s.solver.check(st.pc, (c,))
            ok_f, m_f = s.solver.check(st.pc, (nc,))
        if ok_t and ok_f:
            other = st.fork()
            other.pc.append(nc)
            other.model = m_f
            st.pc.append(c)
            st.model = m_t
            s.pin_eq(st, c)
            s.pin_eq(other, nc)
            return True, other
        if ok_t:
            return True, None
        if ok_f:
            return False, None
        raise PathEnd('assume_false', 'infeasible path')

    # ------------------------------------------------------------------ memory
    def new_obj(s, st, size, kind, name='', zero=False):
        if kind == 'stack':
            base = st.stack_next
            st.stack_next += (size + 47) // 16 * 16
        else:
            base = st.heap_next
            st.heap_next += (size + 79) // 16 * 16
        o = Obj(base, size, [0 if zero else None] * size, st.id, kind, name)
        st.add_obj(o)
        return o

    def memerr(s, st, msg):
        raise PathEnd('memory', msg)

    def locate(s, st, addr, n, write):
        """-> (obj, off) with all checks; addr may be symbolic (then forks)"""
        if type(addr) is E:
            addr = st.simp(addr)
            if type(addr) is E:
                s.sym_addr_check(st, addr, n)
                s.concretize(st, addr, 'address')
        i = bisect.bisect_right(st.bases, addr) - 1
        if i >= 0:
            o = st.objs[st.bases[i]]
            off = addr - o.base
            if off + n <= o.size:
                if o.freed:
                    s.memerr(st, 'use after free of %s object at 0x%x (+%d)' % (o.kind, o.base, off))
                if write:
                    if o.ro:
                        s.memerr(st, 'write to constant %s' % o.name)
                    if o.owner != st.id:
                        o = o.clone(st.id)
                        st.objs[o.base] = o
                if st.watch:
                    w = st.watch.get(o.base)
                    if w is not None:
                        (w[2] if write else w[4]).update(range(off, off + n))
                if s.race_detect and len(st.threads) > 1 and not (o.name or '').startswith('@vp_'):     # vp_*: counters of the environment stubs, not library state
                    s.race_check(st, o, off, n, write)
                if s.trace_mem is not None:
                    s.trace_mem(st, o, off, n, write)
                return o, off
            if off < o.size + 32:
                s.memerr(st, 'out-of-bounds %s of %d bytes at offset %d of %s object of %d bytes (%s)' % (
                    'write' if write else 'read', n, off, o.kind, o.size, o.name))
        if addr < 4096:
            s.memerr(st, 'null pointer %s (address 0x%x)' % ('write' if write else 'read', addr))
        s.memerr(st, 'wild %s of %d bytes at 0x%x' % ('write' if write else 'read', n, addr))

    # ---- happens-before race detection (vector clocks; mutexes, thread create/join and atomics synchronise)
    def vc_of(s, st, tid):
        v = st.vc.get(tid)
        if v is None:
            v = {tid: 1}
            st.vc[tid] = v
        return v

    def vc_release(s, st, tid, key):
        v = s.vc_of(st, tid)
        cur = st.sync_vc.get(key)
        if cur is None:
            st.sync_vc[key] = dict(v)
        else:
            for k, c in v.items():
                if cur.get(k, 0) < c:
                    cur[k] = c
        v[tid] = v.get(tid, 0) + 1

    def vc_acquire(s, st, tid, key):
        src = st.sync_vc.get(key)
        if src is None:
            return
        v = s.vc_of(st, tid)
        for k, c in src.items():
            if v.get(k, 0) < c:
                v[k] = c

    def race_check(s, st, o, off, n, write):
        tid = st.threads[st.cur].tid
        if s.atomic_now:
            key = ('a', o.base, off)
            # atomic accesses synchronise (sequentially consistent in the sources)
            s.vc_acquire(st, tid, key)
            if write:
                s.vc_release(st, tid, key)
            return
        v = s.vc_of(st, tid)
        key = (o.base, off)
        sh = st.shadow.get(key)
        if sh is None:
            st.shadow[key] = [(tid, v.get(tid, 0)) if write else None, {} if write else {tid: v.get(tid, 0)}]
            return
        w = sh[0]
        if w is not None and w[0] != tid and v.get(w[0], 0) < w[1]:
            s.report_race(st, o, off, n, 'write by thread %d' % w[0], 'write' if write else 'read', tid)
        if write:
            for rt, rc in sh[1].items():
                if rt != tid and v.get(rt, 0) < rc:
                    s.report_race(st, o, off, n, 'read by thread %d' % rt, 'write', tid)
            sh[0] = (tid, v.get(tid, 0))
            sh[1] = {}
        else:
            sh[1][tid] = v.get(tid, 0)

    def report_race(s, st, o, off, n, other, kind, tid):
        th = st.threads[st.cur]
        where = th.frames[-1].fn.name if th.frames else ''
        msg = 'data race: %s of %d bytes at offset %d of %s object %s (%d bytes) by thread %s in %s, unordered with a %s' % (
            kind, n, off, o.kind, o.name, o.size, th.name or tid, where, other)
        k = (o.name, off, where)
        if k in s.races_seen:
            return
        s.races_seen.add(k)
        s.violations.append(Violation('race', msg, s.model_for(st), list(st.inputs), s.where(st),
                                      extra=dict(schedule=list(st.sched_log))))

    def sym_addr_check(s, st, addr, n):
        """a symbolic address must stay inside the object its constant part points to"""
        ok, m = s.solver.check(st.pc)
        if not ok:
            raise PathEnd('assume_false', '')
        a0 = X.evaluate(addr, m)
        o = st.find(a0)
        if o is None:
            st.model = m
            s.memerr(st, 'symbolic address can be wild: 0x%x' % a0)
        lo = o.base
        hi = o.base + o.size - n
        bad = X.lor(X.ult(addr, lo, 64), X.ult(hi, addr, 64))
        ok, m = s.solver.check(st.pc, (bad,))
        if ok:
            st.model = m
            st.pc.append(bad)
            s.memerr(st, 'symbolic address can leave %s object %s of %d bytes (e.g. offset %d)' % (
                o.kind, o.name, o.size, X.sgn((X.evaluate(addr, m) - o.base) & M64, 64)))

    def load(s, st, addr, n):
        o, off = s.locate(st, addr, n, False)
        d = o.data
        if n == 1:
            c = d[off]
            if type(c) is int:
                return c
        cells = d[off:off + n]
        try:
            return int.from_bytes(bytes(cells), 'little')
        except (TypeError, ValueError):
            pass
        # symbolic / uninitialised
        if None in cells:
            o = st.wobj(o)
            d = o.data
            for i in range(n):
                if d[off + i] is None:
                    st.ngarb += 1
                    g = X.var('G%d_%d' % (st.ngarb, o.base & 0xffffff), 8)
                    d[off + i] = (g, 0)
                    st.flags['garbage_read'] = st.flags.get('garbage_read', 0) + 1
            cells = d[off:off + n]
        c0 = cells[0]
        if type(c0) is tuple and c0[1] == 0 and c0[0].w == 8 * n:
            e = c0[0]
            ok = True
            for i in range(1, n):
                c = cells[i]
                if type(c) is not tuple or c[0] is not e or c[1] != i:
                    ok = False
                    break
            if ok:
                return e
        parts = []
        for c in reversed(cells):
            if type(c) is int:
                parts.append((c, 8))
            else:
                e, k = c
                parts.append((X.extract(e, 8 * k + 7, 8 * k), 8))
        return X.concat(parts)

    def store(s, st, addr, v, n):
        o, off = s.locate(st, addr, n, True)
        d = o.data
        if type(v) is E:
            if v.w != 8 * n:
                v = X.zext(v, 8 * n)
            for i in range(n):
                d[off + i] = (v, i)
        else:
            if n == 1:
                d[off] = v & 255
            else:
                d[off:off + n] = (v & ((1 << (8 * n)) - 1)).to_bytes(n, 'little')

    def read_cells(s, st, addr, n):
        if n == 0:
            return []
        o, off = s.locate(st, addr, n, False)
        return o.data[off:off + n]

    def write_cells(s, st, addr, cells):
        n = len(cells)
        if n == 0:
            return
        o, off = s.locate(st, addr, n, True)
        o.data[off:off + n] = cells

    def copy_len(s, st, dst, src, n):
        """length operand of a copy: if symbolic, first check that it cannot exceed either object
        (a violation with a model if it can), then enumerate the in-bounds values"""
        if type(n) is E:
            n = st.simp(n)
        if type(n) is not E:
            return n
        lim = None
        for p in (dst, src):
            p = st.simp(p) if type(p) is E else p
            if type(p) is E:
                continue
            o = st.find(p)
            if o is not None:
                room = o.base + o.size - p
                lim = room if lim is None else min(lim, room)
        if lim is not None:
            over = X.ult(lim, n, 64)
            ok, m = s.solver.check(st.pc, (over,))
            if ok:
                s.violations.append(Violation('memory', 'copy of a symbolic number of bytes can run past the end of '
                                              'an object (%d bytes available, e.g. length %d) in %s' % (
                                                  lim, X.evaluate(n, m), s.where(st).split(' <- ')[0]),
                                              m, list(st.inputs), s.where(st)))
                ok2, m2 = s.solver.check(st.pc, (X.lnot(over),))
                if not ok2:
                    raise PathEnd('exit', 'copy always out of bounds')
                st.pc.append(X.lnot(over))
                st.model = m2
        n = s.pin_stale(st, n, 'a copy length')
        if type(n) is not E:
            return n
        return s.need_int(st, n, 'copy length')

    def cstring(s, st, addr, maxlen=4096):
        if type(addr) is E:
            addr = s.need_int(st, addr)
        out = []
        o = st.find(addr)
        if o is None:
            return '<bad ptr 0x%x>' % addr
        off = addr - o.base
        while off < o.size and len(out) < maxlen:
            c = o.data[off]
            if type(c) is not int or c == 0:
                break
            out.append(c)
            off += 1
        return bytes(out).decode('latin1')

    def malloc(s, st, size, kind='heap', name=''):
        if type(size) is E:
            size = st.simp(size)
        if type(size) is E:
            size = s.pin_stale(st, size, 'an allocation size')
        if type(size) is E and s.alloc_policy is not None and st.cmodel is None:
            small, cap = s.alloc_policy
            w = size.w
            too_big = X.ult(cap, size, w)
            ok_fit, m_fit = s.solver.check(st.pc, (X.lnot(too_big),))
            if not ok_fit:
                st.flags['alloc_fail'] = st.flags.get('alloc_fail', 0) + 1
                return None
            ok_big, m_big = s.solver.check(st.pc, (too_big,))
            if ok_big:
                o = st.fork()
                o.pc.append(too_big)
                o.model = m_big
                st.pc.append(X.lnot(too_big))
                st.model = m_fit
                raise ForkSignal([st, o])
            mid = X.ult(small, size, w)
            ok_mid, m_mid = s.solver.check(st.pc, (mid,))
            if ok_mid:
                ok_small, m_small = s.solver.check(st.pc, (X.lnot(mid),))
                # representative for the class "allocation succeeds and is larger than the small bound"
                lo = X.ult(size, small + 4096, w)
                ok_w, m_w = s.solver.check(st.pc, (mid, lo))
                if not ok_w:
                    m_w = m_mid
                wv = X.evaluate(size, m_w)
                if wv > (1 << 20):
                    # too large to materialise: treat as failing allocation (stated in the evidence)
                    st.flags['alloc_unmaterialised'] = st.flags.get('alloc_unmaterialised', 0) + 1
                    if ok_small:
                        o = st.fork()
                        o.pc.append(X.lnot(mid))
                        o.model = m_small
                        st.pc.append(mid)
                        st.model = m_mid
                        st.flags['alloc_force_fail'] = 1
                        raise ForkSignal([st, o])
                    return None
                states = []
                if ok_small:
                    o = st.fork()
                    o.pc.append(X.lnot(mid))
                    o.model = m_small
                    states.append(o)
                st.pc.append(X.eq(size, wv, w))
                st.model = None
                at = []
                s.atoms(size, at)
                if len(at) == 1 and at[0] is size:
                    st.sub[size] = wv
                else:
                    st.sub[size] = wv
                st.submemo = {}
                st.flags['alloc_representative'] = st.flags.get('alloc_representative', 0) + 1
                raise ForkSignal([st] + states)
        size = s.need_int(st, size, 'allocation size')
        if size > s.max_alloc:
            return None
        o = s.new_obj(st, size, kind, name)
        st.live_heap += size
        if st.live_heap > st.peak_heap:
            st.peak_heap = st.live_heap
        return o

    def free(s, st, addr, how='free'):
        if type(addr) is E:
            addr = s.need_int(st, addr)
        if addr == 0:
            return
        o = st.objs.get(addr)
        if o is None:
            s.memerr(st, '%s of non-heap or interior pointer 0x%x' % (how, addr))
        if o.kind not in ('heap', 'exc'):
            s.memerr(st, '%s of %s object %s' % (how, o.kind, o.name))
        if o.freed:
            s.memerr(st, 'double free of heap object at 0x%x (%d bytes)' % (addr, o.size))
        o = st.wobj(o)
        o.freed = True
        st.live_heap -= o.size

    def leaks(s, st):
        return [o for o in st.objs.values() if o.kind == 'heap' and not o.freed]

    # ------------------------------------------------------------------ instructions
    def i_unsupported(s, st, th, fr, ins):
        raise PathEnd('unsupported', 'instruction: %s (%s)' % (ins[2], ins[3]))

    def i_landingpad_stray(s, st, th, fr, ins):
        raise PathEnd('unsupported', 'landingpad reached by normal control flow')

    def i_copy(s, st, th, fr, ins):
        fr.regs[ins[1]] = s.val(fr.regs, ins[2])

    def i_bin(s, st, th, fr, ins):
        _, dst, op, w, a, b = ins
        regs = fr.regs
        if type(a) is str:
            a = regs[a]
        if type(b) is str:
            b = regs[b]
        if type(a) is not E and type(b) is not E:
            m = (1 << w) - 1
            if op == 'add':
                r = (a + b) & m
            elif op == 'sub':
                r = (a - b) & m
            elif op == 'and':
                r = a & b
            elif op == 'or':
                r = a | b
            elif op == 'xor':
                r = a ^ b
            elif op == 'mul':
                r = (a * b) & m
            elif op == 'shl':
                r = (a << b) & m if b < w else 0
            elif op == 'lshr':
                r = a >> b if b < w else 0
            else:
                r = BINF[op](a, b, w)
        else:
            r = BINF[op](a, b, w)
        regs[dst] = r

    def i_icmp(s, st, th, fr, ins):
        _, dst, pred, w, a, b = ins
        regs = fr.regs
        if type(a) is str:
            a = regs[a]
        if type(b) is str:
            b = regs[b]
        if type(a) is not E and type(b) is not E:
            if pred == 'eq':
                r = a == b
            elif pred == 'ne':
                r = a != b
            elif pred == 'ult':
                r = a < b
            elif pred == 'ugt':
                r = a > b
            elif pred == 'ule':
                r = a <= b
            elif pred == 'uge':
                r = a >= b
            else:
                sa = a - (1 << w) if a >> (w - 1) else a
                sb = b - (1 << w) if b >> (w - 1) else b
                if pred == 'slt':
                    r = sa < sb
                elif pred == 'sgt':
                    r = sa > sb
                elif pred == 'sle':
                    r = sa <= sb
                else:
                    r = sa >= sb
            regs[dst] = 1 if r else 0
            return
        regs[dst] = CMPF[pred](a, b, w)

    def i_cast(s, st, th, fr, ins):
        _, dst, op, w1, w2, a = ins
        if type(a) is str:
            a = fr.regs[a]
        if op in ('bitcast', 'ptrtoint', 'inttoptr', 'addrspacecast'):
            if w1 == w2 or w1 is None or w2 is None:
                fr.regs[dst] = a
                return
            if w2 < w1:
                fr.regs[dst] = X.trunc(a, w2)
            else:
                fr.regs[dst] = X.zext(a, w2)
            return
        if op == 'zext':
            fr.regs[dst] = X.zext(a, w2)
        elif op == 'trunc':
            fr.regs[dst] = X.trunc(a, w2)
        else:
            fr.regs[dst] = X.sext(a, w2, w1)

    def i_gep(s, st, th, fr, ins):
        _, dst, base, coff, dyn = ins
        regs = fr.regs
        if type(base) is str:
            base = regs[base]
        if dyn:
            a = base
            if coff:
                a = X.add(a, coff & M64, 64)
            for r, sc, iw in dyn:
                v = regs[r]
                if type(v) is E:
                    if iw < 64:
                        v = X.sext(v, 64, iw)
                    a = X.add(a, X.mul(v, sc, 64), 64)
                else:
                    if iw < 64 and v >> (iw - 1):
                        v -= 1 << iw
                    if type(a) is E:
                        a = X.add(a, (v * sc) & M64, 64)
                    else:
                        a = (a + v * sc) & M64
            regs[dst] = a
        elif type(base) is E:
            regs[dst] = X.add(base, coff & M64, 64)
        else:
            regs[dst] = (base + coff) & M64

    def i_load(s, st, th, fr, ins):
        _, dst, a, n, w, atomic = ins
        if type(a) is str:
            a = fr.regs[a]
        if atomic:
            s.atomic_now = True
            v = s.load(st, a, n)
            s.atomic_now = False
        else:
            v = s.load(st, a, n)
        if w is not None and w < 8 * n:
            v = X.trunc(v, w)
        fr.regs[dst] = v

    def i_store(s, st, th, fr, ins):
        _, _, a, v, n, w, atomic = ins
        regs = fr.regs
        if type(a) is str:
            a = regs[a]
        if type(v) is str:
            v = regs[v]
        if type(v) is list:
            raise PathEnd('unsupported', 'aggregate store')
        if atomic:
            s.atomic_now = True
            s.store(st, a, v, n)
            s.atomic_now = False
        else:
            s.store(st, a, v, n)

    def i_alloca(s, st, th, fr, ins):
        _, dst, z, n = ins
        if type(n) is str:
            n = s.need_int(st, fr.regs[n], 'alloca count')
        o = s.new_obj(st, max(z * n, 1), 'stack', fr.fn.name)
        fr.allocas.append(o.base)
        fr.regs[dst] = o.base

    def i_select(s, st, th, fr, ins):
        _, dst, c, a, b, w = ins
        regs = fr.regs
        if type(c) is str:
            c = regs[c]
        if type(a) is str:
            a = regs[a]
        if type(b) is str:
            b = regs[b]
        if type(c) is E:
            c = st.simp(c)
        if type(c) is not E:
            regs[dst] = a if c else b
        else:
            if type(a) is list or w is None:
                raise PathEnd('unsupported', 'select on aggregate with symbolic condition')
            regs[dst] = X.ite(c, a, b, w)

    def goto(s, fr, label):
        phis, code = fr.blocks[label]
        if phis:
            prev = fr.label
            regs = fr.regs
            vals = []
            for _, dst, inc in phis:
                v = inc[prev]
                if type(v) is str:
                    v = regs[v]
                elif type(v) is tuple and v and v[0] == 'UNDEF':
                    s.nundef += 1
                    v = X.var('Gundef%d' % s.nundef, v[1])
                vals.append((dst, v))
            for dst, v in vals:
                regs[dst] = v
        fr.label = label
        fr.code = code
        fr.ip = 0

    def i_jmp(s, st, th, fr, ins):
        s.goto(fr, ins[2])
        return True

    def i_br(s, st, th, fr, ins):
        _, _, c, a, b = ins
        if type(c) is str:
            c = fr.regs[c]
        if type(c) is E:
            taken, other = s.branch(st, c)
            if other is not None:
                ofr = other.threads[other.cur].frames[-1]
                s.goto(ofr, b)
                s.goto(fr, a)
                raise ForkSignal([st, other])
            s.goto(fr, a if taken else b)
            return True
        s.goto(fr, a if c else b)
        return True

    def i_switch(s, st, th, fr, ins):
        _, _, v, w, d, cases = ins
        if type(v) is str:
            v = fr.regs[v]
        if type(v) is E:
            v = st.simp(v)
        if type(v) is E and st.cmodel is not None:
            cvv = X.evaluate(v, st.cmodel)
            st.pc.append(X.eq(v, cvv, w))
            st.sub[v] = cvv
            st.submemo = {}
            v = cvv
        if type(v) is E:
            # fork: one state per feasible case + default
            states = []
            conds = []
            for cv, tl in cases:
                c = X.eq(v, cv, w)
                conds.append(c)
                ok, m = s.solver.check(st.pc, (c,))
                if ok:
                    o = st.fork()
                    o.pc.append(c)
                    o.model = m
                    o.sub[v] = cv
                    s.goto(o.threads[o.cur].frames[-1], tl)
                    states.append(o)
            dpc = [X.lnot(c) for c in conds]
            ok, m = s.solver.check(st.pc, dpc)
            if ok:
                st.pc.extend(dpc)
                st.model = m
                s.goto(fr, d)
                states.insert(0, st)
            if not states:
                raise PathEnd('assume_false', '')
            raise ForkSignal(states)
        for cv, tl in cases:
            if cv == v:
                s.goto(fr, tl)
                return True
        s.goto(fr, d)
        return True

    def pop_frame(s, st, th):
        fr = th.frames.pop()
        for b in fr.allocas:
            o = st.objs[b]
            if o.owner != st.id:
                o = o.clone(st.id)
                st.objs[b] = o
            o.freed = True
        return fr

    def i_ret(s, st, th, fr, ins):
        v = ins[2]
        if type(v) is str:
            v = fr.regs[v]
        old = s.pop_frame(st, th)
        if th.frames and not old.rt:
            s.finish_call(st, th, v)
        return True

    def finish_call(s, st, th, v):
        """the callee of the top frame's current call instruction returned v"""
        fr = th.frames[-1]
        ins = fr.code[fr.ip]
        if ins[1] is not None:
            fr.regs[ins[1]] = v
        if ins[4] is not None:
            s.goto(fr, ins[4])
        else:
            fr.ip += 1

    def i_unreachable(s, st, th, fr, ins):
        raise PathEnd('unreachable', 'reached "unreachable" in ' + fr.fn.name)

    def i_extractvalue(s, st, th, fr, ins):
        _, dst, v, path = ins
        if type(v) is str:
            v = fr.regs[v]
        for k in path:
            v = v[k]
        fr.regs[dst] = v

    def i_insertvalue(s, st, th, fr, ins):
        _, dst, v, ev, path = ins
        regs = fr.regs
        if type(v) is str:
            v = regs[v]
        if type(ev) is str:
            ev = regs[ev]

        def ins_(agg, path):
            agg = list(agg) if isinstance(agg, list) else [0] * (path[0] + 1)
            while len(agg) <= path[0]:
                agg.append(0)
            if len(path) == 1:
                agg[path[0]] = ev
            else:
                agg[path[0]] = ins_(agg[path[0]], path[1:])
            return agg
        regs[dst] = ins_(v, path)

    def i_atomicrmw(s, st, th, fr, ins):
        _, dst, aop, a, v, n, w = ins
        regs = fr.regs
        if type(a) is str:
            a = regs[a]
        if type(v) is str:
            v = regs[v]
        s.atomic_now = True
        old = s.load(st, a, n)
        if aop == 'xchg':
            new = v
        else:
            new = BINF[aop](old, v, w)
        s.store(st, a, new, n)
        s.atomic_now = False
        if dst is not None:
            regs[dst] = old

    def i_cmpxchg(s, st, th, fr, ins):
        _, dst, a, c, nv, n, w = ins
        regs = fr.regs
        if type(a) is str:
            a = regs[a]
        if type(c) is str:
            c = regs[c]
        if type(nv) is str:
            nv = regs[nv]
        s.atomic_now = True
        old = s.load(st, a, n)
        e = X.eq(old, c, w)
        if type(e) is E:
            s.atomic_now = False
            e = 1 if s.need_int(st, e) else 0
            s.atomic_now = True
        if e:
            s.store(st, a, nv, n)
        s.atomic_now = False
        regs[dst] = [old, e]

    # ------------------------------------------------------------------ calls
    def i_call(s, st, th, fr, ins):
        _, dst, target, args, normal, unwind = ins
        regs = fr.regs
        av = [regs[a] if type(a) is str else a for a in args]
        if type(target) is tuple:
            fp = regs[target[1]]
            fp = s.need_int(st, fp, 'function pointer')
            name = s.prog.func_by_addr(fp)
            if name is None:
                raise PathEnd('memory', 'indirect call through bad function pointer 0x%x' % fp)
        else:
            name = target
        fn = s.prog.get(name) if not name.startswith(OVERRIDE) else None
        if fn is not None:
            nf = Frame(fn)
            r2 = nf.regs
            ps = fn.params
            for i in range(len(ps)):
                r2[ps[i]] = av[i]
            if len(av) > len(ps):
                r2['%va'] = av[len(ps):]
            th.frames.append(nf)
            s.funcs_run.add(name)
            return True
        if name.startswith('@llvm.'):
            r = s.intrinsic(st, th, fr, name, av)
        else:
            m = s.models.get(name)
            if m is None:
                m = s.find_model(name)
            if m is None:
                raise PathEnd('unsupported', 'call to unmodelled external %s' % name)
            r = m(s, st, th, av)
        if r is CONTROL:
            return True
        if dst is not None:
            regs[dst] = r if r is not None else 0
        if normal is not None:
            s.goto(fr, normal)
            return True
        if th.status != 'run' or st.switch or st.preempt_pending:
            fr.ip += 1
            return True
        return None

    def find_model(s, name):
        for pref, m in s.prefix_models:
            if name.startswith(pref):
                s.models[name] = m
                return m
        return None

    def intrinsic(s, st, th, fr, name, av):
        if name.startswith('@llvm.memcpy') or name.startswith('@llvm.memmove'):
            n = s.copy_len(st, av[0], av[1], av[2])
            if n:
                cells = s.read_cells(st, av[1], n)
                s.write_cells(st, av[0], list(cells))
            return None
        if name.startswith('@llvm.memset'):
            n = s.need_int(st, av[2], 'memset length')
            if n:
                v = av[1]
                if type(v) is E:
                    cells = [(v, 0)] * n
                else:
                    cells = [v & 255] * n
                s.write_cells(st, av[0], cells)
            return None
        if name.startswith(('@llvm.lifetime', '@llvm.dbg', '@llvm.experimental.noalias', '@llvm.invariant',
                            '@llvm.prefetch', '@llvm.stackrestore', '@llvm.donothing', '@llvm.var.annotation')):
            return None
        if name.startswith('@llvm.assume'):
            return None
        if name.startswith('@llvm.stacksave'):
            return 0
        if name == '@llvm.trap':
            raise PathEnd('trap', 'llvm.trap in ' + fr.fn.name)
        if name == '@llvm.eh.typeid.for':
            return s.typeid(av[0])
        if name.startswith('@llvm.expect'):
            return av[0]
        for pre, f in (('@llvm.umin', lambda a, b, w: X.ite(X.ult(a, b, w), a, b, w)),
                       ('@llvm.umax', lambda a, b, w: X.ite(X.ult(a, b, w), b, a, w)),
                       ('@llvm.smin', lambda a, b, w: X.ite(X.slt(a, b, w), a, b, w)),
                       ('@llvm.smax', lambda a, b, w: X.ite(X.slt(a, b, w), b, a, w))):
            if name.startswith(pre):
                w = int(name.rsplit('.i', 1)[1])
                return f(av[0], av[1], w)
        if name.startswith('@llvm.abs'):
            w = int(name.rsplit('.i', 1)[1])
            return X.ite(X.slt(av[0], 0, w), X.neg(av[0], w), av[0], w)
        if name.startswith(('@llvm.ctlz', '@llvm.cttz', '@llvm.ctpop', '@llvm.bswap', '@llvm.fshl', '@llvm.fshr', '@llvm.uadd',
                            '@llvm.usub', '@llvm.umul', '@llvm.sadd', '@llvm.ssub', '@llvm.smul')):
            w = int(name.split('.i')[1].split('.')[0])
            return s.bit_intrinsic(st, name, av, w)
        raise PathEnd('unsupported', 'intrinsic ' + name)

    def bit_intrinsic(s, st, name, av, w):
        a = av[0]
        if name.startswith('@llvm.umul.with.overflow'):
            x, y = av[0], av[1]
            if type(x) is not E and type(y) is not E:
                p = x * y
                return [p & ((1 << w) - 1), 1 if p >> w else 0]
            xe = X.zext(x, 2 * w) if type(x) is E else x
            ye = X.zext(y, 2 * w) if type(y) is E else y
            p = X.mul(xe, ye, 2 * w)
            return [X.trunc(p, w), X.ne(X.extract(p, 2 * w - 1, w), 0, w)]
        if name.startswith('@llvm.uadd.with.overflow'):
            x, y = av[0], av[1]
            r = X.add(x, y, w)
            return [r, X.ult(r, x, w)]
        if name.startswith('@llvm.usub.with.overflow'):
            x, y = av[0], av[1]
            return [X.sub(x, y, w), X.ult(x, y, w)]
        if name.startswith('@llvm.bswap') and type(a) is E:
            # byte swap of a symbolic value: a permutation of its bytes, no concretisation
            nb = w // 8
            return X.concat([(X.extract(a, 8 * i + 7, 8 * i), 8) for i in range(nb)])
        if name.startswith(('@llvm.fshl', '@llvm.fshr')):
            x, y, c = av[0], av[1], av[2]
            if type(c) is E:
                c = s.need_int(st, c, name + ' amount')
            c %= w
            if type(x) is not E and type(y) is not E:
                v = ((x << w) | y)
                return ((v << c) >> w) & ((1 << w) - 1) if name.startswith('@llvm.fshl') else (v >> c) & ((1 << w) - 1)
            if c == 0:
                return x if name.startswith('@llvm.fshl') else y
            # (x:y) as a 2w-bit value; fshl takes bits [2w-1-c .. w-c], fshr bits [w-1+c .. c]
            cat = X.concat([(x, w), (y, w)])
            if name.startswith('@llvm.fshl'):
                return X.extract(cat, 2 * w - 1 - c, w - c)
            return X.extract(cat, w - 1 + c, c)
        if type(a) is E:
            a = s.need_int(st, a, name)
        if name.startswith('@llvm.ctlz'):
            return w - a.bit_length()
        if name.startswith('@llvm.cttz'):
            return (a & -a).bit_length() - 1 if a else w
        if name.startswith('@llvm.ctpop'):
            return bin(a).count('1')
        if name.startswith('@llvm.bswap'):
            return int.from_bytes(a.to_bytes(w // 8, 'little'), 'big')
        raise PathEnd('unsupported', 'intrinsic ' + name)

    # ------------------------------------------------------------------ exceptions
    def typeid(s, ti):
        if ti == 0:
            return 0
        r = s.typeids.get(ti)
        if r is None:
            r = len(s.typeids) + 1
            s.typeids[ti] = r
        return r

    STD_BASES = {
        '@_ZTISt13runtime_error': '@_ZTISt9exception', '@_ZTISt9bad_alloc': '@_ZTISt9exception',
        '@_ZTISt11logic_error': '@_ZTISt9exception', '@_ZTISt12length_error': '@_ZTISt11logic_error',
        '@_ZTISt12out_of_range': '@_ZTISt11logic_error', '@_ZTISt20bad_array_new_length': '@_ZTISt9bad_alloc',
        '@_ZTISt12system_error': '@_ZTISt13runtime_error', '@_ZTISt16invalid_argument': '@_ZTISt11logic_error',
        '@_ZTISt8bad_cast': '@_ZTISt9exception',
    }

    def type_matches(s, st, thrown, catch):
        if catch == 0 or thrown == catch:
            return True
        seen = 0
        work = [thrown]
        while work and seen < 50:
            seen += 1
            t = work.pop()
            if t == catch:
                return True
            o = st.find(t)
            if o is None:
                continue
            nm = o.name
            if nm in s.STD_BASES:
                work.append(s.prog.sym_addr(s.STD_BASES[nm]))
                continue
            if o.size < 24 or not nm.startswith('@_ZTI'):
                continue
            vp = s.load(st, t, 8)
            vo = st.find(vp) if type(vp) is int else None
            kind = vo.name if vo is not None else ''
            if 'si_class_type_info' in kind:
                work.append(s.load(st, t + 16, 8))
            elif 'vmi_class_type_info' in kind:
                cnt = s.load(st, t + 20, 4)
                for i in range(cnt):
                    work.append(s.load(st, t + 24 + 16 * i, 8))
        return False

    def throw(s, st, th, obj, tinfo):
        """unwind the current thread; returns CONTROL"""
        st.flags['throws'] = st.flags.get('throws', 0) + 1
        while th.frames:
            fr = th.frames[-1]
            ins = fr.code[fr.ip] if fr.ip < len(fr.code) else None
            if ins is not None and ins[0] == 'call' and ins[5] is not None:
                lab = ins[5]
                phis, code = fr.blocks[lab]
                lp = code[0]
                assert lp[0] == 'landingpad', lp
                sel = 0
                for kind, ti in lp[3]:
                    if kind == 'catch' and s.type_matches(st, tinfo, ti):
                        sel = s.typeid(ti) if ti else 0
                        # catch-all has typeid 0 but must still be entered
                        s.goto(fr, lab)
                        fr.regs[lp[1]] = [obj, sel]
                        fr.ip = 1
                        return CONTROL
                if lp[2]:
                    s.goto(fr, lab)
                    fr.regs[lp[1]] = [obj, 0]
                    fr.ip = 1
                    return CONTROL
            s.pop_frame(st, th)
        nm = ''
        o = st.find(tinfo)
        if o is not None:
            nm = o.name
        else:
            nm = s.prog.func_by_addr(tinfo) or ''
        raise PathEnd('uncaught_exception', 'exception of type %s left thread %s' % (nm, th.name or th.tid))

    def i_resume(s, st, th, fr, ins):
        v = ins[2]
        if type(v) is str:
            v = fr.regs[v]
        obj = v[0]
        info = st.excs.get(obj)
        if info is None:
            raise PathEnd('unsupported', 'resume with unknown exception object')
        s.pop_frame(st, th)
        s.throw(st, th, obj, info[0])
        return True


# library functions that are modelled even when their header code is present in the IR
# (output formatting is never a subject)
OVERRIDE = ('@_ZStlsISt11char_traitsIcEERSt13basic_ostreamIcT_ES5_', '@_ZNSolsE', '@_ZSt4endl', '@_ZSt16__ostream_insert',
            '@_ZNSo9_M_insert', '@_ZNSo5flushEv', '@_ZNSo3putEc', '@_ZSt4endlIcSt11char_traitsIcEERSt13basic_ostream')


class _Control(object):
    pass


CONTROL = _Control()

BINF = {'add': X.add, 'sub': X.sub, 'mul': X.mul, 'and': X.band, 'or': X.bor, 'xor': X.bxor, 'shl': X.shl,
        'lshr': X.lshr, 'ashr': X.ashr, 'udiv': X.udiv, 'urem': X.urem, 'sdiv': X.sdiv, 'srem': X.srem,
        'max': lambda a, b, w: X.ite(X.slt(a, b, w), b, a, w), 'min': lambda a, b, w: X.ite(X.slt(a, b, w), a, b, w),
        'umax': lambda a, b, w: X.ite(X.ult(a, b, w), b, a, w), 'umin': lambda a, b, w: X.ite(X.ult(a, b, w), a, b, w)}

CMPF = {
    'eq': X.eq, 'ne': X.ne, 'ult': X.ult, 'ule': X.ule,
    'ugt': lambda a, b, w: X.ult(b, a, w), 'uge': lambda a, b, w: X.ule(b, a, w),
    'slt': X.slt, 'sle': X.sle,
    'sgt': lambda a, b, w: X.slt(b, a, w), 'sge': lambda a, b, w: X.sle(b, a, w),
}
