#!/bin/sh
# round 3 / round 4 seeds against their own property's check and the related ones (run after seedmatrix3.sh)
cd /verif
t() { n=$1; shift; [ -f seeded/$n/patch.diff ] || return; echo "== $n"; python3-vt engine/seedtest.py seeded/$n/patch.diff "$@" 2>&1 | tee seeded/$n/checks.txt; }
t R3-C02-m1 C02 C01
t R3-C02-m2 C02 C01
t R3-C05-m1 C05
t R3-C05-m2 C05
t R3-C07-m1 C07 C06
t R3-C07-m2 C07 C15
t R3-C09-m1 C09 C17
t R3-C09-m2 C09
t R3-C12-m1 C12
t R3-C12-m2 C12
t R3-C16-m1 C16
t R3-C16-m2 C16
t R3-C17-m1 C17
t R3-C17-m2 C17 C14
for p in C01 C03 C04 C06 C08 C10 C11 C13 C14 C15; do for m in m1 m2; do t R4-$p-$m $p; done; done
# seeds rebased onto the repaired File::close() (dcdda94)
t C06-m1 C06 C13
t C10-m2 C10 C06
