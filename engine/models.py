"""Environment models for llsym: C/C++ runtime, libstdc++ out-of-line members,
pthread / condition_variable / thread (cooperative), harness intrinsics (vp_*).

Every function here is part of the trusted base and is listed in the evidence.
Signature: model(ex, st, th, args) -> value | None | CONTROL
"""
from expr import E
import expr as X
from symex import PathEnd, CONTROL, Thread, Frame, Violation, M64

M = {}
PREFIX = []


def model(*names):
    def deco(f):
        for n in names:
            M['@' + n] = f
        return f
    return deco


def prefix(*names):
    def deco(f):
        for n in names:
            PREFIX.append(('@' + n, f))
        return f
    return deco


def install(ex):
    ex.models.update(M)
    ex.prefix_models = list(PREFIX)


# ---------------------------------------------------------------- allocation
def _alloc_fail(ex, st, th, what='_ZTISt9bad_alloc'):
    return throw_std(ex, st, th, '@' + what, 'allocation failed')


@model('_Znwm', '_Znam')
def op_new(ex, st, th, a):
    site = 'new'
    if ex.alloc_sites:
        fr = [f.fn.name for f in th.frames[-8:] if 'Vector' in f.fn.name or f.fn.name.startswith('@h_')]
        site = 'new@' + (fr[-1] if fr else '?')
    o = ex.malloc(st, a[0], 'heap', site)
    if o is None:
        return _alloc_fail(ex, st, th)
    return o.base


@model('malloc')
def c_malloc(ex, st, th, a):
    o = ex.malloc(st, a[0], 'heap', 'malloc')
    return 0 if o is None else o.base


@model('calloc')
def c_calloc(ex, st, th, a):
    n = ex.need_int(st, a[0]) * ex.need_int(st, a[1])
    o = ex.malloc(st, n, 'heap', 'calloc')
    if o is None:
        return 0
    o.data = [0] * n
    return o.base


@model('_ZdlPv', '_ZdaPv', '_ZdlPvm', '_ZdaPvm', 'free')
def op_delete(ex, st, th, a):
    ex.free(st, a[0])


@model('_ZSt17__throw_bad_allocv', '_ZSt28__throw_bad_array_new_lengthv')
def throw_bad_alloc(ex, st, th, a):
    return _alloc_fail(ex, st, th)


@model('_ZSt20__throw_length_errorPKc')
def throw_length_error(ex, st, th, a):
    return throw_std(ex, st, th, '@_ZTISt12length_error', ex.cstring(st, a[0]))


@model('_ZSt19__throw_logic_errorPKc')
def throw_logic_error(ex, st, th, a):
    return throw_std(ex, st, th, '@_ZTISt11logic_error', ex.cstring(st, a[0]))


@model('_ZSt24__throw_out_of_range_fmtPKcz', '_ZSt20__throw_out_of_rangePKc')
def throw_oor(ex, st, th, a):
    return throw_std(ex, st, th, '@_ZTISt12out_of_range', ex.cstring(st, a[0]))


@model('_ZSt20__throw_system_errori')
def throw_syserr(ex, st, th, a):
    return throw_std(ex, st, th, '@_ZTISt12system_error', 'system_error')


@model('_ZSt16__throw_bad_castv')
def throw_bad_cast(ex, st, th, a):
    return throw_std(ex, st, th, '@_ZTISt8bad_cast', 'bad_cast')


def std_vtable(ex, st):
    """fake vtable for exceptions created by the models: dtor, dtor, what"""
    a = st.flags.get('stdexc_vt')
    if a is None:
        o = ex.new_obj(st, 40, 'heap', 'vt_stdexc', zero=True)
        o.kind = 'global'
        for i, fn in ((2, '@vp_stdexc_dtor'), (3, '@vp_stdexc_dtor'), (4, '@vp_stdexc_what')):
            fa = ex.prog.sym_addr(fn)
            o.data[8 * i:8 * i + 8] = list(fa.to_bytes(8, 'little'))
        a = o.base + 16
        st.flags['stdexc_vt'] = a
    return a


def throw_std(ex, st, th, tiname, msg):
    o = ex.new_obj(st, 32, 'heap', 'std-exception')
    o.kind = 'exc'
    o.data = [0] * 32
    vt = std_vtable(ex, st)
    o.data[0:8] = list(vt.to_bytes(8, 'little'))
    ti = ex.prog.sym_addr(tiname)
    # make sure the typeinfo object exists with its name for hierarchy lookups
    st.excs[o.base] = [ti, 1]
    st.notes.append(('throw', tiname[1:], msg))
    return ex.throw(st, th, o.base, ti)


@model('vp_stdexc_dtor')
def stdexc_dtor(ex, st, th, a):
    return None


@model('vp_stdexc_what')
def stdexc_what(ex, st, th, a):
    return ex.prog.sym_addr('@vp_what_str')


# ---------------------------------------------------------------- C++ ABI
@model('__cxa_allocate_exception')
def cxa_alloc_exc(ex, st, th, a):
    n = ex.need_int(st, a[0])
    o = ex.new_obj(st, n, 'heap', 'exception')
    o.kind = 'exc'
    return o.base


@model('__cxa_free_exception')
def cxa_free_exc(ex, st, th, a):
    ex.free(st, a[0], '__cxa_free_exception')


@model('__cxa_throw')
def cxa_throw(ex, st, th, a):
    obj = ex.need_int(st, a[0])
    ti = ex.need_int(st, a[1])
    st.excs[obj] = [ti, 1, ex.need_int(st, a[2])]
    return ex.throw(st, th, obj, ti)


@model('__cxa_begin_catch')
def cxa_begin_catch(ex, st, th, a):
    obj = ex.need_int(st, a[0])
    th.caught.append(obj)
    return obj


@model('__cxa_end_catch')
def cxa_end_catch(ex, st, th, a):
    if not th.caught:
        raise PathEnd('unsupported', '__cxa_end_catch without caught exception')
    obj = th.caught.pop()
    info = st.excs.get(obj)
    if info is not None and obj not in th.caught:
        info[1] -= 1
        if info[1] <= 0:
            o = st.objs.get(obj)
            if o is not None and not o.freed:
                o = st.wobj(o)
                o.freed = True
            del st.excs[obj]


@model('__cxa_rethrow')
def cxa_rethrow(ex, st, th, a):
    if not th.caught:
        raise PathEnd('terminate', 'rethrow without active exception')
    obj = th.caught[-1]
    info = st.excs[obj]
    info[1] += 1
    return ex.throw(st, th, obj, info[0])


@model('__cxa_get_exception_ptr')
def cxa_get_exc_ptr(ex, st, th, a):
    return a[0]


@model('_ZSt17current_exceptionv')
def current_exception(ex, st, th, a):
    # sret: exception_ptr { void* }
    obj = th.caught[-1] if th.caught else 0
    if obj:
        st.excs[obj][1] += 1
    ex.store(st, a[0], obj, 8)
    return None


@model('_ZSt17rethrow_exceptionNSt15__exception_ptr13exception_ptrE')
def rethrow_exception(ex, st, th, a):
    obj = ex.load(st, a[0], 8)
    obj = ex.need_int(st, obj)
    if obj == 0:
        raise PathEnd('terminate', 'rethrow_exception(null)')
    info = st.excs[obj]
    info[1] += 1
    return ex.throw(st, th, obj, info[0])


@model('_ZNSt15__exception_ptr13exception_ptr9_M_addrefEv')
def excptr_addref(ex, st, th, a):
    obj = ex.need_int(st, ex.load(st, a[0], 8))
    if obj and obj in st.excs:
        st.excs[obj][1] += 1


@model('_ZNSt15__exception_ptr13exception_ptr10_M_releaseEv')
def excptr_release(ex, st, th, a):
    obj = ex.need_int(st, ex.load(st, a[0], 8))
    if obj and obj in st.excs:
        info = st.excs[obj]
        info[1] -= 1
        if info[1] <= 0:
            o = st.wobj(st.objs[obj])
            o.freed = True
            del st.excs[obj]


@model('_ZSt9terminatev')
def terminate(ex, st, th, a):
    raise PathEnd('terminate', 'std::terminate called in ' + ex.where(st))


@model('abort')
def c_abort(ex, st, th, a):
    raise PathEnd('terminate', 'abort() called in ' + ex.where(st))


@model('__cxa_pure_virtual')
def pure_virtual(ex, st, th, a):
    raise PathEnd('terminate', 'pure virtual call')


@model('__cxa_call_unexpected')
def call_unexpected(ex, st, th, a):
    raise PathEnd('terminate', '__cxa_call_unexpected')


@model('__cxa_atexit', '_ZNSt8ios_base4InitC1Ev', '_ZNSt8ios_base4InitD1Ev', '__cxa_guard_release',
       '__cxa_guard_abort')
def nop0(ex, st, th, a):
    return 0


@model('__cxa_guard_acquire')
def guard_acquire(ex, st, th, a):
    g = ex.load(st, a[0], 1)
    if g:
        return 0
    ex.store(st, a[0], 1, 1)
    return 1


# std::runtime_error (out of line in libstdc++): keep the message pointer at +8
@model('_ZNSt13runtime_errorC2EPKc', '_ZNSt13runtime_errorC1EPKc', '_ZNSt11logic_errorC2EPKc',
       '_ZNSt11logic_errorC1EPKc')
def runtime_error_ctor(ex, st, th, a):
    ex.store(st, X.add(a[0], 8, 64) if type(a[0]) is E else a[0] + 8, a[1], 8)


@model('_ZNSt13runtime_errorD2Ev', '_ZNSt13runtime_errorD1Ev', '_ZNSt11logic_errorD2Ev', '_ZNSt9exceptionD2Ev',
       '_ZNSt9exceptionD1Ev')
def runtime_error_dtor(ex, st, th, a):
    return None


@model('_ZNKSt13runtime_error4whatEv', '_ZNKSt11logic_error4whatEv')
def runtime_error_what(ex, st, th, a):
    return ex.load(st, a[0] + 8, 8)


@model('_ZNKSt9exception4whatEv')
def exception_what(ex, st, th, a):
    return ex.prog.sym_addr('@vp_what_str')


# ---------------------------------------------------------------- libc
@model('strlen')
def c_strlen(ex, st, th, a):
    p = ex.need_int(st, a[0])
    n = 0
    while True:
        c = ex.load(st, p + n, 1)
        if type(c) is E:
            c = ex.need_int(st, X.eq(c, 0, 8))
            if c:
                return n
        elif c == 0:
            return n
        n += 1


@model('memcpy', 'memmove')
def c_memcpy(ex, st, th, a):
    n = ex.copy_len(st, a[0], a[1], a[2])
    if n:
        cells = ex.read_cells(st, a[1], n)
        ex.write_cells(st, a[0], list(cells))
    return a[0]


@model('memset')
def c_memset(ex, st, th, a):
    n = ex.need_int(st, a[2], 'memset length')
    if n:
        v = a[1]
        ex.write_cells(st, a[0], [(X.trunc(v, 8), 0)] * n if type(v) is E else [v & 255] * n)
    return a[0]


def _cmp_cells(ex, st, ca, cb):
    """three-way compare of two equally long cell lists; may be symbolic"""
    res = 0
    for x, y in zip(reversed(ca), reversed(cb)):
        xv = x if type(x) is int else (X.extract(x[0], 8 * x[1] + 7, 8 * x[1]) if x is not None else None)
        yv = y if type(y) is int else (X.extract(y[0], 8 * y[1] + 7, 8 * y[1]) if y is not None else None)
        if xv is None or yv is None:
            raise PathEnd('memory', 'memcmp reads uninitialised memory')
        lt = X.ult(xv, yv, 8)
        eq = X.eq(xv, yv, 8)
        res = X.ite(eq, res, X.ite(lt, M64 >> 32, 1, 32), 32)
    return res


@model('memcmp', 'bcmp')
def c_memcmp(ex, st, th, a):
    n = ex.need_int(st, a[2], 'memcmp length')
    if n == 0:
        return 0
    ca = ex.read_cells(st, a[0], n)
    cb = ex.read_cells(st, a[1], n)
    return _cmp_cells(ex, st, ca, cb)


@model('strcmp')
def c_strcmp(ex, st, th, a):
    p = ex.need_int(st, a[0])
    q = ex.need_int(st, a[1])
    i = 0
    while True:
        x = ex.need_int(st, ex.load(st, p + i, 1))
        y = ex.need_int(st, ex.load(st, q + i, 1))
        if x != y:
            return (x - y) & 0xffffffff
        if x == 0:
            return 0
        i += 1


@model('memchr')
def c_memchr(ex, st, th, a):
    p = ex.need_int(st, a[0])
    c = ex.need_int(st, a[1]) & 255
    n = ex.need_int(st, a[2])
    for i in range(n):
        x = ex.need_int(st, ex.load(st, p + i, 1))
        if x == c:
            return p + i
    return 0


# ---------------------------------------------------------------- iostream: output formatting is not a subject
@prefix('_ZStlsISt11char_traitsIcEERSt13basic_ostreamIcT_ES5_', '_ZNSolsE', '_ZSt4endl', '_ZNSo5flushEv',
        '_ZNSo3putEc', '_ZSt16__ostream_insert', '_ZNSo9_M_insert', '_ZSt4endlIcSt11char_traitsIcEERSt13basic_ostream')
def ostream_nop(ex, st, th, a):
    return a[0]


@model('_ZNKSt5ctypeIcE13_M_widen_initEv', '_ZNSt9basic_iosIcSt11char_traitsIcEE5clearESt12_Ios_Iostate')
def ios_nop(ex, st, th, a):
    return None


# ---------------------------------------------------------------- std::list node hooks
@model('_ZNSt8__detail15_List_node_base7_M_hookEPS0_')
def list_hook(ex, st, th, a):
    # this->_M_next = pos; this->_M_prev = pos->_M_prev; pos->_M_prev->_M_next = this; pos->_M_prev = this
    this = ex.need_int(st, a[0])
    pos = ex.need_int(st, a[1])
    prev = ex.need_int(st, ex.load(st, pos + 8, 8))
    ex.store(st, this, pos, 8)
    ex.store(st, this + 8, prev, 8)
    ex.store(st, prev, this, 8)
    ex.store(st, pos + 8, this, 8)


@model('_ZNSt8__detail15_List_node_base9_M_unhookEv')
def list_unhook(ex, st, th, a):
    this = ex.need_int(st, a[0])
    nxt = ex.need_int(st, ex.load(st, this, 8))
    prev = ex.need_int(st, ex.load(st, this + 8, 8))
    ex.store(st, prev, nxt, 8)
    ex.store(st, nxt + 8, prev, 8)


# ---------------------------------------------------------------- mutex / condition variable / thread
def _held(st, tid):
    h = st.locks_held.get(tid)
    if h is None:
        h = set()
        st.locks_held[tid] = h
    return h


@model('pthread_mutex_lock')
def mutex_lock(ex, st, th, a):
    m = ex.need_int(st, a[0])
    st.sync_cnt[('L', th.tid)] = st.sync_cnt.get(('L', th.tid), 0) + 1       # explicit lock calls of this thread (native replay counts the same)
    owner = st.mutex.get(m)
    if owner is not None:
        if owner == th.tid:
            raise PathEnd('deadlock', 'thread %s locks a mutex it already holds (0x%x)' % (th.name or th.tid, m))
        # cooperative scheduling: block until released
        ex.block(st, th, 'mutex', m)
        th.relock = m
        return 0
    st.mutex[m] = th.tid
    _held(st, th.tid).add(m)
    if ex.race_detect:
        ex.vc_acquire(st, th.tid, ('m', m))
    if ex.preempt_bound and ex.preempt_in_cs:
        st.preempt_pending = True
        st.last_sync = ('L', th.tid, st.sync_cnt.get(('L', th.tid), 0))
    return 0


@model('pthread_mutex_trylock')
def mutex_trylock(ex, st, th, a):
    m = ex.need_int(st, a[0])
    if st.mutex.get(m) is not None:
        return 16
    st.mutex[m] = th.tid
    _held(st, th.tid).add(m)
    if ex.race_detect:
        ex.vc_acquire(st, th.tid, ('m', m))
    return 0


def _unlock(ex, st, th, m):
    owner = st.mutex.get(m)
    if owner != th.tid:
        raise PathEnd('memory', 'unlock of mutex 0x%x not held by thread %s' % (m, th.name or th.tid))
    del st.mutex[m]
    _held(st, th.tid).discard(m)
    if ex.race_detect:
        ex.vc_release(st, th.tid, ('m', m))
    if ex.preempt_bound:
        st.preempt_pending = True
        st.last_sync = ('W', th.tid, 0)        # overwritten by the explicit unlock model
    for t in st.threads:
        if t.status == 'mutex' and t.wait == m:
            t.status = 'run'


@model('pthread_mutex_unlock')
def mutex_unlock(ex, st, th, a):
    n = st.sync_cnt.get(('U', th.tid), 0) + 1
    st.sync_cnt[('U', th.tid)] = n
    _unlock(ex, st, th, ex.need_int(st, a[0]))
    st.last_sync = ('U', th.tid, n)
    # fairness: the cooperative schedule lets a thread run until it blocks; a thread that polls (takes and releases a
    # mutex over and over without ever blocking) must not starve the others for ever - after 256 releases in a row it
    # yields once to the next runnable thread, as any fair OS scheduler eventually would
    run = st.flags.get('spin')
    if run is not None and run[0] == th.tid:
        k = run[1] + 1
    else:
        k = 1
    if k >= 256:
        k = 0
        if any(t2.tid != th.tid and t2.status == 'run' and t2.frames for t2 in st.threads):
            st.switch = True
    st.flags['spin'] = (th.tid, k)
    return 0


@model('pthread_mutex_init', 'pthread_mutex_destroy', 'pthread_cond_init', 'pthread_cond_destroy',
       '_ZNSt18condition_variableC1Ev', '_ZNSt18condition_variableC2Ev')
def sync_nop(ex, st, th, a):
    return 0


@model('_ZNSt18condition_variableD1Ev', '_ZNSt18condition_variableD2Ev')
def cv_dtor(ex, st, th, a):
    cv = ex.need_int(st, a[0])
    for t in st.threads:
        if t.status == 'cv' and t.wait == cv:
            raise PathEnd('memory', 'condition_variable destroyed while thread %s waits on it' % (t.name or t.tid))
    return None


@model('_ZNSt18condition_variable4waitERSt11unique_lockISt5mutexE')
def cv_wait(ex, st, th, a):
    cv = ex.need_int(st, a[0])
    lk = ex.need_int(st, a[1])
    m = ex.need_int(st, ex.load(st, lk, 8))
    st.flags['cv_waits'] = st.flags.get('cv_waits', 0) + 1
    hook = ex.hooks.get('cv_wait')
    if hook is not None:
        hook(ex, st, th, cv, m)
    if st.flags.get('probe'):
        # would-block probe: report instead of blocking
        st.flags['blocked_cv'] = cv
        ti = ex.prog.sym_addr('@_ZTI9VpBlocked')
        o = ex.new_obj(st, 16, 'heap', 'VpBlocked')
        o.kind = 'exc'
        o.data = [0] * 16
        st.excs[o.base] = [ti, 1]
        return ex.throw(st, th, o.base, ti)
    _unlock(ex, st, th, m)
    ex.block(st, th, 'cv', cv)
    th.relock = m
    return None


@model('_ZNSt18condition_variable10notify_allEv', '_ZNSt18condition_variable10notify_oneEv')
def cv_notify_all(ex, st, th, a):
    cv = ex.need_int(st, a[0])
    st.flags['notifies'] = st.flags.get('notifies', 0) + 1
    hook = ex.hooks.get('cv_notify')
    if hook is not None:
        hook(ex, st, th, cv)
    st.flags['notify:%x' % cv] = st.flags.get('notify:%x' % cv, 0) + 1
    for t in st.threads:
        if t.status == 'cv' and t.wait == cv:
            t.status = 'run'
    return None


@model('vp_notified')
def vp_notified(ex, st, th, a):
    return st.flags.get('notify:%x' % ex.need_int(st, a[0]), 0)


@model('_ZNSt6thread15_M_start_threadESt10unique_ptrINS_6_StateESt14default_deleteIS1_EEPFvvE')
def thread_start(ex, st, th, a):
    this = ex.need_int(st, a[0])
    up = ex.need_int(st, a[1])
    sp = ex.need_int(st, ex.load(st, up, 8))
    ex.store(st, up, 0, 8)
    tid = len(st.threads)
    t = Thread(tid)
    t.state_ptr = sp
    vt = ex.need_int(st, ex.load(st, sp, 8))
    run = ex.need_int(st, ex.load(st, vt + 16, 8))
    name = ex.prog.func_by_addr(run)
    fn = ex.prog.get(name)
    if fn is None:
        raise PathEnd('unsupported', 'thread body not found')
    fr = Frame(fn, True)
    fr.regs[fn.params[0]] = sp
    t.frames.append(fr)
    t.name = 'T%d' % tid
    st.threads.append(t)
    ex.store(st, this, tid, 8)
    o = st.objs.get(sp)
    if o is not None:
        o = st.wobj(o)
        o.tag = 'thread_state'
    st.flags['threads_created'] = st.flags.get('threads_created', 0) + 1
    if ex.race_detect:
        pv = ex.vc_of(st, th.tid)
        st.vc[tid] = dict(pv)
        st.vc[tid][tid] = 1
        pv[th.tid] = pv.get(th.tid, 0) + 1
    if ex.preempt_bound:
        st.preempt_pending = True
        n = st.sync_cnt.get(('S', th.tid), 0) + 1
        st.sync_cnt[('S', th.tid)] = n
        st.last_sync = ('S', th.tid, n)
    if ex.child_first:
        # second base schedule: a newly created thread runs first (the creator continues when the child blocks or is
        # preempted); not counted against the preemption budget
        st.switch = True
        st.force_next = tid
    hook = ex.hooks.get('thread_start')
    if hook is not None:
        hook(ex, st, th, t)
    return None


@model('_ZNSt6thread4joinEv')
def thread_join(ex, st, th, a):
    this = ex.need_int(st, a[0])
    tid = ex.need_int(st, ex.load(st, this, 8))
    if tid == 0 or tid >= len(st.threads):
        return throw_std(ex, st, th, '@_ZTISt12system_error', 'join of non-joinable thread')
    ex.store(st, this, 0, 8)
    st.flags['threads_joined'] = st.flags.get('threads_joined', 0) + 1
    t = st.threads[tid]
    if t.status != 'done' and (t.frames or t.status != 'run'):
        ex.block(st, th, 'join', tid)
    elif ex.race_detect:
        if t.status != 'done':
            ex.vc_release(st, t.tid, ('t', t.tid))
        ex.vc_acquire(st, th.tid, ('t', tid))
    return None


@model('_ZNSt6thread6detachEv')
def thread_detach(ex, st, th, a):
    ex.store(st, ex.need_int(st, a[0]), 0, 8)


@model('_ZNSt6thread20hardware_concurrencyEv')
def thread_hc(ex, st, th, a):
    return 4


@model('_ZNSt6thread6_StateD2Ev', '_ZNSt6thread6_StateD1Ev')
def thread_state_dtor(ex, st, th, a):
    return None


@model('sched_yield', 'pthread_self', 'nanosleep', 'usleep')
def yield_(ex, st, th, a):
    return 0



# ---------------------------------------------------------------- time (symbolic: a timed wait may time out at any moment)
@model('_ZNSt6chrono3_V212steady_clock3nowEv', '_ZNSt6chrono3_V212system_clock3nowEv')
def clock_now(ex, st, th, a):
    t = st.flags.get('clock', 1000000000) + 1000000
    st.flags['clock'] = t
    return t


@model('clock_gettime')
def clock_gettime(ex, st, th, a):
    t = st.flags.get('clock', 1000000000) + 1000000
    st.flags['clock'] = t
    p = ex.need_int(st, a[1])
    ex.store(st, p, t // 1000000000, 8)
    ex.store(st, p + 8, t % 1000000000, 8)
    return 0


@model('pthread_cond_clockwait', 'pthread_cond_timedwait')
def cond_timedwait(ex, st, th, a):
    """the environment decides: either the wait times out right away (ETIMEDOUT, mutex still held), or it behaves
    like an untimed wait.  Both are explored."""
    from symex import ForkSignal
    cv = ex.need_int(st, a[0])
    m = ex.need_int(st, a[1])
    key = 'tw:%d' % st.steps
    choice = st.flags.get('timedwait_choice')
    if choice is None:
        o = st.fork()
        o.flags['timedwait_choice'] = 'timeout'
        st.flags['timedwait_choice'] = 'block'
        raise ForkSignal([st, o])
    del st.flags['timedwait_choice']
    st.flags['timed_waits'] = st.flags.get('timed_waits', 0) + 1
    if choice == 'timeout' and st.flags.get('timeouts', 0) < 3:
        st.flags['timeouts'] = st.flags.get('timeouts', 0) + 1
        # time has passed: the clock is now behind the deadline
        ap = ex.need_int(st, a[3] if len(a) > 3 else a[2])
        sec = ex.need_int(st, ex.load(st, ap, 8))
        nsec = ex.need_int(st, ex.load(st, ap + 8, 8))
        dl = sec * 1000000000 + nsec
        if st.flags.get('clock', 0) <= dl:
            st.flags['clock'] = dl + 1000
        return 110
    if st.flags.get('probe'):
        st.flags['blocked_cv'] = cv
        ti = ex.prog.sym_addr('@_ZTI9VpBlocked')
        o = ex.new_obj(st, 16, 'heap', 'VpBlocked')
        o.kind = 'exc'
        o.data = [0] * 16
        st.excs[o.base] = [ti, 1]
        return ex.throw(st, th, o.base, ti)
    _unlock(ex, st, th, m)
    ex.block(st, th, 'cv', cv)
    th.relock = m
    return 0

# ---------------------------------------------------------------- harness intrinsics
def _fresh(ex, st, name, w, kind='in'):
    if ex.concolic_tape is not None and st.cmodel is not None:
        v = ex.concolic_tape[st.nin] if st.nin < len(ex.concolic_tape) else 0
        st.nin += 1
        nm = '%s#%d.%d' % (name, st.nin, w)
        st.inputs.append((nm, w, kind))
        st.cmodel[nm] = v & ((1 << w) - 1)
        return X.var(nm, w)
    if ex.tape is not None:
        v = ex.tape[st.nin] if st.nin < len(ex.tape) else 0
        st.nin += 1
        return v & ((1 << w) - 1)
    st.nin += 1
    nm = '%s#%d.%d' % (name, st.nin, w)
    st.inputs.append((nm, w, kind))
    return X.var(nm, w)


def _mkint(w):
    def f(ex, st, th, a):
        return _fresh(ex, st, ex.cstring(st, a[0]), w)
    return f


M['@vp_u8'] = _mkint(8)
M['@vp_u16'] = _mkint(16)
M['@vp_u32'] = _mkint(32)
M['@vp_u64'] = _mkint(64)


@model('vp_bytes')
def vp_bytes(ex, st, th, a):
    n = ex.need_int(st, a[1], 'vp_bytes length')
    name = ex.cstring(st, a[2])
    cells = []
    for i in range(n):
        v = _fresh(ex, st, '%s[%d]' % (name, i), 8)
        cells.append((v, 0) if type(v) is E else v)
    ex.write_cells(st, a[0], cells)


@model('vp_choose')
def vp_choose(ex, st, th, a):
    """concrete fork over 0..n-1 (structural choice, not data)"""
    n = ex.need_int(st, a[0])
    v = _fresh(ex, st, ex.cstring(st, a[1]), 32, 'choice')
    if type(v) is not E:
        return v % n if n else 0
    st.add_pc(X.ult(v, n, 32))
    # recorded as input; concretised immediately by complete enumeration
    return v


@model('vp_assume')
def vp_assume(ex, st, th, a):
    c = a[0]
    if type(c) is E:
        c = st.simp(c)
    if type(c) is not E:
        if not c:
            raise PathEnd('assume_false', '')
        return None
    c = X.ne(c, 0, c.w)
    ok, m = ex.feasible(st, c)
    if not ok:
        raise PathEnd('assume_false', '')
    st.pc.append(c)
    st.model = m
    return None


@model('vp_assert')
def vp_assert(ex, st, th, a):
    c = a[0]
    if type(c) is E:
        c = st.simp(c)
    msg = ex.cstring(st, a[1])
    if st.flags.get('failed:' + msg):
        return None          # already reported on this path; one counterexample per assertion and path is enough
    if type(c) is not E:
        if c:
            ex.obl_concrete += 1
            return None
        st.flags['failed:' + msg] = 1
        ex.obl_failed += 1
        ex.violations.append(Violation('assert', msg, ex.model_for(st), list(st.inputs), ex.where(st)))
        if ex.stop_on_assert:
            raise PathEnd('exit', 'assertion failed: ' + msg)
        return None
    good = X.ne(c, 0, c.w)
    bad = X.lnot(good)
    ok, m = ex.solver.check(st.pc, (bad,))
    if ok:
        ex.obl_failed += 1
        st.flags['failed:' + msg] = 1
        ex.violations.append(Violation('assert', msg, m, list(st.inputs), ex.where(st)))
        if ex.stop_on_assert:
            raise PathEnd('exit', 'assertion failed: ' + msg)
        ok2, m2 = ex.feasible(st, good)
        if not ok2:
            raise PathEnd('exit', 'assertion always fails: ' + msg)
        st.pc.append(good)
        st.model = m2
    else:
        ex.obl_solver += 1
    return None


@model('vp_reach')
def vp_reach(ex, st, th, a):
    """reachability witness: records that this point is reachable (with a model)"""
    tag = ex.cstring(st, a[0])
    ex.reached[tag] = ex.reached.get(tag, 0) + 1
    return None


@model('vp_out')
def vp_out(ex, st, th, a):
    n = ex.need_int(st, a[1], 'vp_out length')
    tag = ex.cstring(st, a[2])
    cells = ex.read_cells(st, a[0], n) if n else []
    st.outs.append((tag, list(cells)))


@model('vp_note')
def vp_note(ex, st, th, a):
    st.notes.append((ex.cstring(st, a[0]), a[1]))


@model('vp_watch')
def vp_watch(ex, st, th, a):
    addr = ex.need_int(st, a[0])
    n = ex.need_int(st, a[1])
    o = st.find(addr)
    if o is not None:
        st.watch[o.base] = [addr - o.base, addr - o.base + n, set(), ex.cstring(st, a[2]), set()]


@model('vp_concolic_stop')
def vp_concolic_stop(ex, st, th, a):
    # remember which watched bytes were read up to here (later exports also read them)
    for w in st.watch.values():
        st.flags['reads:' + w[3]] = frozenset(w[4])
    if st.cmodel is not None:
        st.model = dict(st.cmodel)
        st.cmodel = None


@model('vp_sched_point')
def vp_sched_point(ex, st, th, a):
    return None


@model('vp_concrete')
def vp_concrete(ex, st, th, a):
    """complete enumeration of the feasible values of a (small-range) symbolic value: one path per value"""
    return ex.need_int(st, a[0], 'vp_concrete')


@model('vp_is_symbolic')
def vp_is_symbolic(ex, st, th, a):
    return 1


@model('vp_probe')
def vp_probe(ex, st, th, a):
    old = st.flags.get('probe', 0)
    st.flags['probe'] = ex.need_int(st, a[0])
    return old


@model('vp_flag')
def vp_flag(ex, st, th, a):
    """read an executor-side counter: notifies, cv_waits, blocked_cv, throws, ..."""
    return st.flags.get(ex.cstring(st, a[0]), 0) & M64


@model('vp_set_flag')
def vp_set_flag(ex, st, th, a):
    st.flags[ex.cstring(st, a[0])] = ex.need_int(st, a[1])


@model('vp_live_heap')
def vp_live_heap(ex, st, th, a):
    return st.live_heap


@model('vp_check_leaks')
def vp_check_leaks(ex, st, th, a):
    lk = [o for o in ex.leaks(st) if o.tag != 'thread_state']
    if lk:
        # blocks still reachable from static storage are not leaks (function-local statics, caches)
        bases = {o.base for o in lk}
        reach = set()
        work = [o for o in st.objs.values() if o.kind == 'global' and not o.ro]
        seen = set()
        while work:
            o = work.pop()
            if o.base in seen:
                continue
            seen.add(o.base)
            d = o.data
            for i in range(0, len(d) - 7, 8):
                c = d[i:i + 8]
                try:
                    v = int.from_bytes(bytes(c), 'little')
                except (TypeError, ValueError):
                    continue
                if v in bases and v not in reach:
                    reach.add(v)
                    work.append(st.objs[v])
        lk = [o for o in lk if o.base not in reach]
    if lk:
        desc = ', '.join('%s %dB' % (o.name, o.size) for o in lk[:6])
        ex.violations.append(Violation('leak', '%d heap block(s) not freed: %s' % (len(lk), desc),
                                       ex.model_for(st), list(st.inputs), ex.where(st)))
        ex.obl_failed += 1
    else:
        ex.obl_concrete += 1
    return len(lk)


@model('vp_free_now')
def vp_free_now(ex, st, th, a):
    """adversarial consumer: poison an object as freed without running destructors"""
    addr = ex.need_int(st, a[0])
    o = st.objs.get(addr)
    if o is not None:
        o = st.wobj(o)
        o.freed = True


@model('vp_mutex_held')
def vp_mutex_held(ex, st, th, a):
    m = ex.need_int(st, a[0])
    return 1 if st.mutex.get(m) == th.tid else 0


@model('vp_threads_alive')
def vp_threads_alive(ex, st, th, a):
    return sum(1 for t in st.threads if t.tid != 0 and t.status != 'done')


@model('vp_yield')
def vp_yield(ex, st, th, a):
    """let every other runnable thread run until it blocks"""
    if any(t.status == 'run' and t.frames and t.tid != th.tid for t in st.threads):
        st.switch = True
    return None
