#!/bin/sh
# confirm (if needed) and test every sub-agent mutation; one line per check in seeded/<name>/checks.txt
cd /verif
run() { # wt-name ID related...
  p=$1; ID=$2; shift 2
  for m in m1 m2; do
    [ -f /tmp/wt/$p/out/$m/patch.diff ] || continue
    if [ ! -f seeded/$ID-$m/patch.diff ]; then
      echo "== $ID-$m confirm"; python3-vt engine/seedconfirm.py /tmp/wt/$p /tmp/wt/$p/out/$m $ID $ID-$m 2>&1 | grep '"confirmed"\|tests_with_patch\|demo_fails_with_patch\|failed\|does not' | tr '\n' ' '; echo
    fi
    if [ -f seeded/$ID-$m/patch.diff ]; then
      echo "== $ID-$m checks"; python3-vt engine/seedtest.py seeded/$ID-$m/patch.diff $ID "$@" 2>&1 | tee seeded/$ID-$m/checks.txt
    fi
  done
}
run c01 C01 C03 C06
run c02 C02 C01
run c03 C03 C01
run c04 C04 C15 C01 C06
run c05 C05 C04
run c06 C06 C13
run c07 C07 C15 C14
run c08 C08 C10
run c09 C09 C10
run c10 C10 C06 C13
run c12 C12 C15
DEMO_FLAGS=-fsanitize=address run c13 C13
run c14 C14 C07 C17
run c15 C15
run c16 C16 C06
run c17 C17 C14 C01
