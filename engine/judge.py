"""Solver-side helpers used by the property judges: comparisons of exported cell
lists under a path condition."""
from expr import E
import expr as X


def cell_expr(c):
    """one memory cell -> 8-bit value (int | E); None = never written"""
    if type(c) is int:
        return c
    if c is None:
        return None
    e, k = c
    return X.extract(e, 8 * k + 7, 8 * k)


def cells_value(cells):
    """little-endian integer value of a cell list"""
    parts = []
    for c in reversed(cells):
        v = cell_expr(c)
        if v is None:
            return None
        parts.append((v, 8))
    if not parts:
        return 0
    return X.concat(parts)


def cells_vars(cells):
    s = set()
    for c in cells:
        if type(c) is tuple:
            s |= X.free_vars(c[0])
    return s


def has_garbage(cells):
    for c in cells:
        if c is None:
            return True
        if type(c) is tuple:
            for v in X.free_vars(c[0]):
                if v.a[0].startswith('G'):
                    return True
    return False


def diff_expr(ca, cb):
    """i1 expression: the two cell lists differ (lengths must match)"""
    d = 0
    for x, y in zip(ca, cb):
        if x is y or x == y:
            continue
        if type(x) is tuple and type(y) is tuple and x[0] is y[0] and x[1] == y[1]:
            continue
        xv = cell_expr(x)
        yv = cell_expr(y)
        if xv is None or yv is None:
            return 1
        d = X.lor(d, X.ne(xv, yv, 8))
        if d == 1:
            return 1
    return d


def differs(ex, st, ca, cb):
    """can the two cell lists differ on this path? -> (False, None) | (True, model)"""
    if len(ca) != len(cb):
        return True, ex.model_for(st)
    d = st.simp(diff_expr(ca, cb)) if st.sub else diff_expr(ca, cb)
    if type(d) is not E:
        if d:
            return True, ex.model_for(st)
        ex.obl_concrete += 1
        return False, None
    ok, m = ex.solver.check(st.pc, (d,))
    if ok:
        return True, m
    ex.obl_solver += 1
    return False, None


def can_be(ex, st, cond):
    """is `cond` (i1) satisfiable on this path? -> (bool, model)"""
    cond = st.simp(cond)
    if type(cond) is not E:
        if cond:
            return True, ex.model_for(st)
        ex.obl_concrete += 1
        return False, None
    ok, m = ex.solver.check(st.pc, (cond,))
    if not ok:
        ex.obl_solver += 1
    return ok, m


def note(st, key, default=None):
    for k, v in reversed(st.notes):
        if k == key:
            return v
    return default


def out(st, tag):
    for t, cells in reversed(st.outs):
        if t == tag:
            return cells
    return None
