"""Differential self-test of the expression layer: random terms are built through the simplifying
constructors and, in parallel, as raw reference trees; both are evaluated under random assignments
(reference evaluator below shares no code with expr.evaluate) and, for a sample, checked with z3."""
import random
import sys

import expr as X
from expr import E

M = lambda w: (1 << w) - 1


def sg(v, w):
    return v - (1 << w) if v >> (w - 1) else v


def ref_eval(t, env):
    op = t[0]
    if op == 'c':
        return t[1]
    if op == 'v':
        return env[t[1]] & M(t[2])
    w = t[1]
    a = [ref_eval(x, env) for x in t[2:] if isinstance(x, tuple)]
    if op == 'add': return (a[0] + a[1]) & M(w)
    if op == 'sub': return (a[0] - a[1]) & M(w)
    if op == 'mul': return (a[0] * a[1]) & M(w)
    if op == 'and': return a[0] & a[1]
    if op == 'or': return a[0] | a[1]
    if op == 'xor': return a[0] ^ a[1]
    if op == 'shl': return (a[0] << a[1]) & M(w) if a[1] < w else 0
    if op == 'lshr': return a[0] >> a[1] if a[1] < w else 0
    if op == 'ashr': return (sg(a[0], w) >> min(a[1], w - 1)) & M(w)
    if op == 'udiv': return a[0] // a[1] if a[1] else M(w)
    if op == 'urem': return a[0] % a[1] if a[1] else a[0]
    if op == 'zext': return a[0]
    if op == 'sext': return sg(a[0], t[3]) & M(w)
    if op == 'trunc': return a[0] & M(w)
    if op == 'extract': return (a[0] >> t[4]) & M(w)
    if op == 'concat': return (a[0] << t[4]) | a[1]
    if op == 'eq': return 1 if a[0] == a[1] else 0
    if op == 'ult': return 1 if a[0] < a[1] else 0
    if op == 'slt': return 1 if sg(a[0], t[3]) < sg(a[1], t[3]) else 0
    if op == 'ite': return a[1] if a[0] else a[2]
    if op == 'not': return a[0] ^ 1
    raise NotImplementedError(op)


VARS = [('a', 8), ('b', 8), ('c', 16), ('d', 32), ('e', 32), ('f', 64), ('g', 64)]


def gen(rnd, w, depth):
    """-> (simplified value, reference tree)"""
    if depth == 0 or rnd.random() < 0.15:
        if rnd.random() < 0.4:
            v = rnd.choice([0, 1, M(w), 1 << (w - 1), rnd.getrandbits(w), 3, 4, 8, 255 & M(w)]) & M(w)
            return v, ('c', v)
        cands = [(n, vw) for n, vw in VARS if vw == w]
        if cands:
            n, vw = rnd.choice(cands)
            return X.var(n, vw), ('v', n, vw)
        # adapt a variable of another width
        n, vw = rnd.choice(VARS)
        if vw > w:
            return X.trunc(X.var(n, vw), w), ('trunc', w, ('v', n, vw))
        return X.zext(X.var(n, vw), w), ('zext', w, ('v', n, vw))
    k = rnd.choice(['add', 'sub', 'mul', 'and', 'or', 'xor', 'shl', 'lshr', 'ashr', 'udiv', 'urem', 'zext', 'sext',
                    'trunc', 'extract', 'concat', 'ite', 'cmpite', 'add', 'sub', 'and', 'extract', 'concat'])
    if w == 1 and k in ('zext', 'sext', 'concat'):
        k = 'xor'
    if k in ('add', 'sub', 'mul', 'and', 'or', 'xor', 'udiv', 'urem'):
        a, ra = gen(rnd, w, depth - 1)
        b, rb = gen(rnd, w, depth - 1)
        f = {'add': X.add, 'sub': X.sub, 'mul': X.mul, 'and': X.band, 'or': X.bor, 'xor': X.bxor, 'udiv': X.udiv,
             'urem': X.urem}[k]
        return f(a, b, w), (k, w, ra, rb)
    if k in ('shl', 'lshr', 'ashr'):
        a, ra = gen(rnd, w, depth - 1)
        if rnd.random() < 0.7:
            b = rnd.randrange(0, w + 2)
            rb = ('c', b)
        else:
            b, rb = gen(rnd, w, depth - 1)
        f = {'shl': X.shl, 'lshr': X.lshr, 'ashr': X.ashr}[k]
        return f(a, b, w), (k, w, ra, rb)
    if k in ('zext', 'sext'):
        ws = [x for x in (1, 8, 16, 32) if x < w]
        if not ws:
            return gen(rnd, w, depth - 1)
        w0 = rnd.choice(ws)
        a, ra = gen(rnd, w0, depth - 1)
        if k == 'zext':
            return X.zext(a, w), ('zext', w, ra)
        return X.sext(a, w, w0), ('sext', w, ra, w0)
    if k == 'trunc':
        ws = [x for x in (16, 32, 64) if x > w]
        if not ws:
            return gen(rnd, w, depth - 1)
        w0 = rnd.choice(ws)
        a, ra = gen(rnd, w0, depth - 1)
        return X.trunc(a, w), ('trunc', w, ra)
    if k == 'extract':
        ws = [x for x in (8, 16, 32, 64) if x >= w]
        w0 = rnd.choice(ws) if ws else w
        if w0 < w:
            return gen(rnd, w, depth - 1)
        a, ra = gen(rnd, w0, depth - 1)
        lo = rnd.randrange(0, w0 - w + 1)
        return X.extract(a, lo + w - 1, lo), ('extract', w, ra, lo + w - 1, lo)
    if k == 'concat':
        w1 = rnd.choice([x for x in (1, 8, 16, 24, 32, 48) if x < w] or [0])
        if w1 == 0:
            return gen(rnd, w, depth - 1)
        w2 = w - w1
        if w1 not in (1, 8, 16, 32, 64) or w2 not in (1, 8, 16, 32, 64):
            return gen(rnd, w, depth - 1)
        a, ra = gen(rnd, w1, depth - 1)
        b, rb = gen(rnd, w2, depth - 1)
        return X.concat([(a, w1), (b, w2)]), ('concat', w, ra, rb, w2)
    # ite / comparison
    cw = rnd.choice([8, 16, 32, 64])
    x, rx = gen(rnd, cw, depth - 1)
    y, ry = gen(rnd, cw, depth - 1)
    p = rnd.choice(['eq', 'ult', 'slt', 'ne', 'ule', 'sle'])
    if p == 'eq': c, rc = X.eq(x, y, cw), ('eq', 1, rx, ry)
    elif p == 'ne': c, rc = X.ne(x, y, cw), ('not', 1, ('eq', 1, rx, ry))
    elif p == 'ult': c, rc = X.ult(x, y, cw), ('ult', 1, rx, ry)
    elif p == 'ule': c, rc = X.ule(x, y, cw), ('not', 1, ('ult', 1, ry, rx))
    elif p == 'slt': c, rc = X.slt(x, y, cw), ('slt', 1, rx, ry, cw)
    else: c, rc = X.sle(x, y, cw), ('not', 1, ('slt', 1, ry, rx, cw))
    if rc[0] == 'slt':
        rc = ('slt', 1, rc[2], cw, rc[3]) if False else rc
    if w == 1 and k == 'cmpite':
        return c, rc
    a, ra = gen(rnd, w, depth - 1)
    b, rb = gen(rnd, w, depth - 1)
    return X.ite(c, a, b, w), ('ite', w, rc, ra, rb)


def fix_slt(t):
    """reference 'slt' nodes carry the operand width at index 3 for ref_eval"""
    return t


def main(n=2000, seed=7):
    rnd = random.Random(seed)
    bad = 0
    z3checked = 0
    for i in range(n):
        w = rnd.choice([1, 8, 16, 32, 64])
        v, r = gen(rnd, w, rnd.randrange(1, 5))
        # ref trees: slt nodes are ('slt', 1, rx, ry, cw): reorder for ref_eval
        def norm(t):
            if not isinstance(t, tuple):
                return t
            if t[0] == 'slt':
                return ('slt', 1, norm(t[2]), t[4], norm(t[3]))
            return tuple(norm(x) for x in t)
        r = norm(r)
        def ev_slt(t, env):
            return ref_eval(t, env)
        for _ in range(6):
            env = {nm: rnd.choice([0, 1, M(vw), 1 << (vw - 1), rnd.getrandbits(vw)]) for nm, vw in VARS}
            # reference: slt tuple layout ('slt',1,a,cw,b)
            def re(t):
                if t[0] == 'slt':
                    a, b = re(t[2]), re(t[4])
                    return 1 if sg(a, t[3]) < sg(b, t[3]) else 0
                if t[0] == 'c':
                    return t[1]
                if t[0] == 'v':
                    return env[t[1]] & M(t[2])
                sub = tuple(('c', re(x)) if isinstance(x, tuple) else x for x in t)
                return ref_eval(sub, env)
            want = re(r) & M(w)
            got = X.evaluate(v, env) & M(w)
            if want != got:
                bad += 1
                print('SELFTEST MISMATCH', X.show(v), r, env, want, got)
                break
            # substitution with full assignment must agree too
            if type(v) is E:
                sub = {X.var(nm, vw): env[nm] & M(vw) for nm, vw in VARS}
                s2 = X.substitute(v, sub, {})
                if type(s2) is E or (s2 & M(w)) != want:
                    bad += 1
                    print('SELFTEST SUBST MISMATCH', X.show(v), s2, want)
                    break
        if type(v) is E and i % 10 == 0:
            # z3: the simplified term and its evaluation agree on one more random point
            import z3
            env = {nm: rnd.getrandbits(vw) for nm, vw in VARS}
            s = z3.Solver()
            for nm, vw in VARS:
                s.add(z3.BitVec(nm, vw) == env[nm])
            s.add(X.to_z3(v) != z3.BitVecVal(X.evaluate(v, env) & M(w), w))
            if s.check() != z3.unsat:
                bad += 1
                print('SELFTEST Z3 MISMATCH', X.show(v))
            z3checked += 1
    print('selftest: %d random terms, %d z3 cross-checks, %d mismatches' % (n, z3checked, bad))
    if bad:
        sys.exit(3)


if __name__ == '__main__':
    main(int(sys.argv[1]) if len(sys.argv) > 1 else 2000)
