#!/bin/sh
# final regression over every filed seed: its own property's check (the wider matrices are seedmatrix2..5.sh);
# results go to seeded/<name>/final.txt
cd /verif
for d in seeded/*/; do
  n=$(basename $d)
  [ -f $d/patch.diff ] || continue
  id=$(python3 -c "import json;print(json.load(open('$d/meta.json'))['property'])")
  echo "== $n"
  python3-vt engine/seedtest.py $d/patch.diff $id 2>&1 | tee $d/final.txt
done
