#!/bin/sh
# round 6 seeds
cd /verif
t() { n=$1; shift; [ -f seeded/$n/patch.diff ] || return; echo "== $n"; python3-vt engine/seedtest.py seeded/$n/patch.diff "$@" 2>&1 | tee seeded/$n/checks.txt; }
for p in C01 C03 C04 C06 C08 C11 C13 C14 C15 C10; do for m in m1 m2; do t R6-$p-$m $p; done; done
