"""Bit-vector expression DAG for llsym.

Concrete values are plain Python ints (already reduced modulo 2^w); symbolic
values are hash-consed `E` nodes.  Every constructor folds constants and applies
the local rewrites that matter for byte-wise memory (extract/concat fusion), so
that a value stored and loaded back at the same width is the identical node.
Booleans are 1-bit vectors.  Conversion to z3 happens only at query time.
"""
import sys
sys.setrecursionlimit(100000)


class E(object):
    __slots__ = ('op', 'a', 'w', 'z', 'fv', '__weakref__')

    def __init__(self, op, a, w):
        self.op = op
        self.a = a
        self.w = w
        self.z = None
        self.fv = None

    def __repr__(self):
        return show(self)


_tab = {}
_vars = {}          # name -> E


def reset():
    _tab.clear()
    _vars.clear()


def mk(op, a, w):
    k = (op, w, a)
    e = _tab.get(k)
    if e is None:
        e = E(op, a, w)
        _tab[k] = e
    return e


def mask(w):
    return (1 << w) - 1


def sgn(v, w):
    return v - (1 << w) if v >> (w - 1) else v


def var(name, w):
    e = _vars.get(name)
    if e is None:
        e = mk('var', (name,), w)
        _vars[name] = e
    assert e.w == w, (name, e.w, w)
    return e


def isE(x):
    return type(x) is E


def width_of(x, default=None):
    return x.w if type(x) is E else default


def show(e, depth=0):
    if type(e) is not E:
        return hex(e) if isinstance(e, int) and e > 9 else str(e)
    if e.op == 'var':
        return e.a[0]
    if depth > 6:
        return '...'
    if e.op == 'extract':
        return '%s[%d:%d]' % (show(e.a[0], depth + 1), e.a[1], e.a[2])
    return '%s%d(%s)' % (e.op, e.w, ', '.join(show(x, depth + 1) for x in e.a))


# ------------------------------------------------------------------ arithmetic
def add(a, b, w):
    ta = type(a) is E
    tb = type(b) is E
    if not ta and not tb:
        return (a + b) & mask(w)
    if ta and not tb:
        a, b = b, a
        ta, tb = tb, ta
    # now: a is const or both symbolic; constant kept on the left
    if not ta:
        if a == 0:
            return b
        if b.op == 'add' and type(b.a[0]) is not E:
            return add((a + b.a[0]) & mask(w), b.a[1], w)
        if b.op == 'sub' and type(b.a[0]) is not E:
            return sub((a + b.a[0]) & mask(w), b.a[1], w)
        return mk('add', (a, b), w)
    if a.op == 'add' and type(a.a[0]) is not E:
        return add(a.a[0], add(a.a[1], b, w), w)
    if b.op == 'add' and type(b.a[0]) is not E:
        return add(b.a[0], add(a, b.a[1], w), w)
    return mk('add', (a, b), w)


def neg(a, w):
    return sub(0, a, w)


def sub(a, b, w):
    ta = type(a) is E
    tb = type(b) is E
    if not ta and not tb:
        return (a - b) & mask(w)
    if not tb:
        return add((-b) & mask(w), a, w)
    if a is b:
        return 0
    if tb and b.op == 'add' and type(b.a[0]) is not E:
        # a - (c + x) = (a - c) - x
        return sub(sub(a, b.a[0], w), b.a[1], w)
    if ta and a.op == 'add' and type(a.a[0]) is not E:
        # (c + x) - b = c + (x - b)
        return add(a.a[0], sub(a.a[1], b, w), w)
    if ta and a.op == 'add' and a.a[1] is b:
        return a.a[0]
    return mk('sub', (a, b), w)


def mul(a, b, w):
    ta = type(a) is E
    tb = type(b) is E
    if not ta and not tb:
        return (a * b) & mask(w)
    if ta and not tb:
        a, b = b, a
        ta = False
    if not ta:
        if a == 0:
            return 0
        if a == 1:
            return b
    return mk('mul', (a, b), w)


def _div(op, a, b, w):
    if type(a) is not E and type(b) is not E:
        if b == 0:
            return mask(w) if op in ('udiv', 'sdiv') else a
        if op == 'udiv':
            return a // b
        if op == 'urem':
            return a % b
        sa, sb = sgn(a, w), sgn(b, w)
        q = abs(sa) // abs(sb)
        if (sa < 0) != (sb < 0):
            q = -q
        if op == 'sdiv':
            return q & mask(w)
        return (sa - q * sb) & mask(w)
    if type(b) is not E and b == 1 and op in ('udiv', 'sdiv'):
        return a
    return mk(op, (a, b), w)


def udiv(a, b, w): return _div('udiv', a, b, w)
def urem(a, b, w): return _div('urem', a, b, w)
def sdiv(a, b, w): return _div('sdiv', a, b, w)
def srem(a, b, w): return _div('srem', a, b, w)


def band(a, b, w):
    ta = type(a) is E
    tb = type(b) is E
    if not ta and not tb:
        return a & b
    if ta and not tb:
        a, b = b, a
        ta = False
    if not ta:
        if a == 0:
            return 0
        if a == mask(w):
            return b
        # low-bit mask -> zext(extract)
        if a & (a + 1) == 0:
            n = a.bit_length()
            return zext(extract(b, n - 1, 0), w)
        # contiguous high mask: keep generic
    elif a is b:
        return a
    return mk('and', (a, b), w)


def bor(a, b, w):
    ta = type(a) is E
    tb = type(b) is E
    if not ta and not tb:
        return a | b
    if ta and not tb:
        a, b = b, a
        ta = False
    if not ta:
        if a == 0:
            return b
        if a == mask(w):
            return a
    elif a is b:
        return a
    return mk('or', (a, b), w)


def bxor(a, b, w):
    ta = type(a) is E
    tb = type(b) is E
    if not ta and not tb:
        return a ^ b
    if ta and not tb:
        a, b = b, a
        ta = False
    if not ta:
        if a == 0:
            return b
        if w == 1 and a == 1:
            return lnot(b)
    elif a is b:
        return 0
    return mk('xor', (a, b), w)


def shl(a, b, w):
    if type(b) is not E:
        if b >= w:
            return 0
        if b == 0:
            return a
        if type(a) is not E:
            return (a << b) & mask(w)
        # x << c == concat(extract(x, w-1-c, 0), 0_c)
        return concat([(extract(a, w - 1 - b, 0), w - b), (0, b)])
    if type(a) is not E and a == 0:
        return 0
    return mk('shl', (a, b), w)


def lshr(a, b, w):
    if type(b) is not E:
        if b >= w:
            return 0
        if b == 0:
            return a
        if type(a) is not E:
            return a >> b
        return zext(extract(a, w - 1, b), w)
    if type(a) is not E and a == 0:
        return 0
    return mk('lshr', (a, b), w)


def ashr(a, b, w):
    if type(b) is not E:
        if b == 0:
            return a
        if b >= w:
            b = w - 1
        if type(a) is not E:
            return (sgn(a, w) >> b) & mask(w)
        return sext(extract(a, w - 1, b), w, w - b)
    if type(a) is not E and a == 0:
        return 0
    return mk('ashr', (a, b), w)


# ------------------------------------------------------------------ structure
def extract(a, hi, lo):
    w = hi - lo + 1
    if type(a) is not E:
        return (a >> lo) & mask(w)
    if lo == 0 and w == a.w:
        return a
    op = a.op
    if op == 'extract':
        return extract(a.a[0], a.a[2] + hi, a.a[2] + lo)
    if op == 'concat':
        # parts are ((value,width),...) most significant first
        pos = a.w
        out = []
        for v, pw in a.a:
            phi = pos - 1
            plo = pos - pw
            pos = plo
            if plo > hi or phi < lo:
                continue
            h = min(hi, phi) - plo
            l = max(lo, plo) - plo
            out.append((extract(v, h, l), h - l + 1))
        return concat(out)
    if op == 'zext':
        x = a.a[0]
        xw = x.w
        if hi < xw:
            return extract(x, hi, lo)
        if lo >= xw:
            return 0
        return zext(extract(x, xw - 1, lo), w)
    if op == 'sext':
        x = a.a[0]
        if hi < x.w:
            return extract(x, hi, lo)
    if op == 'ite':
        t, f = a.a[1], a.a[2]
        if type(t) is not E or type(f) is not E:
            return ite(a.a[0], extract(t, hi, lo), extract(f, hi, lo), w)
    if op in ('and', 'or', 'xor'):
        f = {'and': band, 'or': bor, 'xor': bxor}[op]
        return f(extract(a.a[0], hi, lo), extract(a.a[1], hi, lo), w)
    if lo == 0 and op in ('add', 'sub', 'mul'):
        f = {'add': add, 'sub': sub, 'mul': mul}[op]
        return f(extract(a.a[0], hi, 0), extract(a.a[1], hi, 0), w)
    return mk('extract', (a, hi, lo), w)


def concat(parts):
    """parts: list of (value, width), most significant first."""
    flat = []
    for v, w in parts:
        if w == 0:
            continue
        if type(v) is E and v.op == 'concat':
            flat.extend(v.a)
        else:
            flat.append((v, w))
    out = []
    for v, w in flat:
        if out:
            pv, pw = out[-1]
            if type(pv) is not E and type(v) is not E:
                out[-1] = ((pv << w) | v, pw + w)
                continue
            if type(pv) is E and type(v) is E and pv.op == 'extract' and v.op == 'extract' \
                    and pv.a[0] is v.a[0] and pv.a[2] == v.a[1] + 1:
                out[-1] = (extract(v.a[0], pv.a[1], v.a[2]), pw + w)
                continue
            if type(pv) is E and type(v) is E and v.op == 'extract' and pv.a and False:
                pass
            # extract(x, hi, lo) preceded by full low part: x itself extracted from 0
            if type(v) is E and type(pv) is E and pv.op == 'extract' and pv.a[0] is v and pv.a[2] == v.w:
                out[-1] = (extract(v, pv.a[1], 0), pw + w)
                continue
        out.append((v, w))
    if len(out) == 1:
        return out[0][0]
    tw = sum(w for _, w in out)
    # leading zero constant -> zext
    if type(out[0][0]) is not E and out[0][0] == 0:
        rest = concat(out[1:])
        return zext(rest, tw) if type(rest) is E else rest
    return mk('concat', tuple(out), tw)


def zext(a, w):
    if type(a) is not E:
        return a
    if a.w == w:
        return a
    assert a.w < w, (a, w)
    if a.op == 'zext':
        return mk('zext', (a.a[0],), w)
    return mk('zext', (a,), w)


def sext(a, w, fromw=None):
    if type(a) is not E:
        return sgn(a, fromw) & mask(w)
    if a.w == w:
        return a
    if a.op == 'zext' and a.a[0].w < a.w:
        return zext(a.a[0], w)
    return mk('sext', (a,), w)


def trunc(a, w):
    if type(a) is not E:
        return a & mask(w)
    return extract(a, w - 1, 0)


# ------------------------------------------------------------------ predicates
def lnot(a):
    if type(a) is not E:
        return a ^ 1
    if a.op == 'not':
        return a.a[0]
    return mk('not', (a,), 1)


def eq(a, b, w):
    ta = type(a) is E
    tb = type(b) is E
    if not ta and not tb:
        return 1 if a == b else 0
    if a is b:
        return 1
    if ta and not tb:
        a, b = b, a
        ta, tb = tb, ta
    if not ta:
        op = b.op
        if op == 'zext':
            x = b.a[0]
            if a >> x.w:
                return 0
            return eq(a, x, x.w)
        if op == 'sext':
            x = b.a[0]
            lowa = a & mask(x.w)
            if sgn(lowa, x.w) & mask(w) != a:
                return 0
            return eq(lowa, x, x.w)
        if op == 'add' and type(b.a[0]) is not E:
            return eq((a - b.a[0]) & mask(w), b.a[1], w)
        if op == 'concat':
            # split into per-part equalities
            pos = w
            res = 1
            for v, pw in b.a:
                pos -= pw
                c = (a >> pos) & mask(pw)
                res = land(res, eq(c, v, pw))
                if res == 0:
                    return 0
            return res
        if op == 'ite' and w == 1:
            pass
        if w == 1:
            return b if a == 1 else lnot(b)
        if op == 'ite':
            t, f = b.a[1], b.a[2]
            if type(t) is not E and type(f) is not E:
                if t == a and f != a:
                    return b.a[0]
                if f == a and t != a:
                    return lnot(b.a[0])
                if t != a and f != a:
                    return 0
    return mk('eq', (a, b), 1)


def ne(a, b, w):
    return lnot(eq(a, b, w))


def ult(a, b, w):
    if type(a) is not E and type(b) is not E:
        return 1 if a < b else 0
    if a is b:
        return 0
    if type(b) is not E and b == 0:
        return 0
    if type(a) is not E and a == mask(w):
        return 0
    if type(a) is E and a.op == 'zext' and type(b) is not E:
        x = a.a[0]
        if b >> x.w:
            return 1
        return ult(x, b, x.w)
    if type(b) is E and b.op == 'zext' and type(a) is not E:
        x = b.a[0]
        if a >> x.w:
            return 0
        return ult(a, x, x.w)
    if type(a) is E and type(b) is E and a.op == 'zext' and b.op == 'zext' and a.a[0].w == b.a[0].w:
        return ult(a.a[0], b.a[0], a.a[0].w)
    return mk('ult', (a, b), 1)


def ule(a, b, w):
    return lnot(ult(b, a, w))


def slt(a, b, w):
    if type(a) is not E and type(b) is not E:
        return 1 if sgn(a, w) < sgn(b, w) else 0
    if a is b:
        return 0
    # zext operands are non-negative: signed compare == unsigned compare
    za = type(a) is E and a.op == 'zext'
    zb = type(b) is E and b.op == 'zext'
    ca = type(a) is not E and not (a >> (w - 1))
    cb = type(b) is not E and not (b >> (w - 1))
    if (za or ca) and (zb or cb):
        return ult(a, b, w)
    return mk('slt', (a, b), 1)


def sle(a, b, w):
    return lnot(slt(b, a, w))


def land(a, b):
    if type(a) is not E:
        return b if a else 0
    if type(b) is not E:
        return a if b else 0
    if a is b:
        return a
    return mk('and', (a, b), 1)


def lor(a, b):
    if type(a) is not E:
        return 1 if a else b
    if type(b) is not E:
        return 1 if b else a
    if a is b:
        return a
    return mk('or', (a, b), 1)


def ite(c, a, b, w):
    if type(c) is not E:
        return a if c else b
    if a is b:
        return a
    if type(a) is not E and type(b) is not E and a == b:
        return a
    if w == 1 and type(a) is not E and type(b) is not E:
        return c if a == 1 else lnot(c)
    if c.op == 'not':
        return ite(c.a[0], b, a, w)
    return mk('ite', (c, a, b), w)


# ------------------------------------------------------------------ analysis
def free_vars(e):
    if type(e) is not E:
        return frozenset()
    if e.fv is not None:
        return e.fv
    if e.op == 'var':
        r = frozenset((e,))
    else:
        r = frozenset()
        for x in (e.a if e.op != 'concat' else [p[0] for p in e.a]):
            if type(x) is E:
                r = r | free_vars(x)
    e.fv = r
    return r


def evaluate(e, env, memo=None):
    """Evaluate under env: var-name -> int.  Missing variables evaluate to 0."""
    if type(e) is not E:
        return e
    if memo is None:
        memo = {}
    r = memo.get(e)
    if r is not None:
        return r
    op = e.op
    w = e.w
    if op == 'var':
        r = env.get(e.a[0], 0) & mask(w)
    elif op == 'concat':
        r = 0
        for v, pw in e.a:
            r = (r << pw) | evaluate(v, env, memo)
    elif op == 'extract':
        r = (evaluate(e.a[0], env, memo) >> e.a[2]) & mask(w)
    elif op == 'zext':
        r = evaluate(e.a[0], env, memo)
    elif op == 'sext':
        x = e.a[0]
        r = sgn(evaluate(x, env, memo), x.w) & mask(w)
    elif op == 'not':
        r = evaluate(e.a[0], env, memo) ^ 1
    elif op == 'ite':
        r = evaluate(e.a[1], env, memo) if evaluate(e.a[0], env, memo) else evaluate(e.a[2], env, memo)
    else:
        a = evaluate(e.a[0], env, memo)
        b = evaluate(e.a[1], env, memo)
        if op in ('eq', 'ult', 'slt'):
            aw = e.a[0].w if type(e.a[0]) is E else e.a[1].w
            if op == 'eq':
                r = 1 if a == b else 0
            elif op == 'ult':
                r = 1 if a < b else 0
            else:
                r = 1 if sgn(a, aw) < sgn(b, aw) else 0
        else:
            f = {'add': add, 'sub': sub, 'mul': mul, 'udiv': udiv, 'urem': urem, 'sdiv': sdiv,
                 'srem': srem, 'and': band, 'or': bor, 'xor': bxor, 'shl': shl, 'lshr': lshr,
                 'ashr': ashr}[op]
            r = f(a, b, w)
    memo[e] = r
    return r


def substitute(e, sub, memo):
    """Rewrite with `sub`: E -> int|E, rebuilding (and so re-simplifying) bottom-up."""
    if type(e) is not E:
        return e
    r = memo.get(e)
    if r is not None:
        return r
    r = sub.get(e)
    if r is None:
        op = e.op
        if op == 'var':
            r = e
        elif op == 'concat':
            r = concat([(substitute(v, sub, memo), pw) for v, pw in e.a])
        elif op == 'extract':
            r = extract(substitute(e.a[0], sub, memo), e.a[1], e.a[2])
        elif op == 'zext':
            r = zext(substitute(e.a[0], sub, memo), e.w)
        elif op == 'sext':
            r = sext(substitute(e.a[0], sub, memo), e.w, e.a[0].w)
        elif op == 'not':
            r = lnot(substitute(e.a[0], sub, memo))
        elif op == 'ite':
            r = ite(substitute(e.a[0], sub, memo), substitute(e.a[1], sub, memo),
                    substitute(e.a[2], sub, memo), e.w)
        else:
            a = substitute(e.a[0], sub, memo)
            b = substitute(e.a[1], sub, memo)
            if op in ('eq', 'ult', 'slt'):
                aw = e.a[0].w if type(e.a[0]) is E else e.a[1].w
                r = {'eq': eq, 'ult': ult, 'slt': slt}[op](a, b, aw)
            elif e.w == 1 and op in ('and', 'or'):
                r = land(a, b) if op == 'and' else lor(a, b)
            else:
                f = {'add': add, 'sub': sub_, 'mul': mul, 'udiv': udiv, 'urem': urem, 'sdiv': sdiv,
                     'srem': srem, 'and': band, 'or': bor, 'xor': bxor, 'shl': shl, 'lshr': lshr,
                     'ashr': ashr}[op]
                r = f(a, b, e.w)
        # the rebuilt term may itself be a recorded concretisation (chains of substitutions)
        n = 0
        while type(r) is E and r is not e and n < 8:
            r2 = sub.get(r)
            if r2 is None:
                break
            r = r2
            n += 1
    memo[e] = r
    return r


sub_ = sub


# ------------------------------------------------------------------ structural digest (stable across processes)
_dig = {}


def digest(e):
    """structural hash of a term (variable names, operators, constants); equal terms have equal digests in any process"""
    import hashlib
    if type(e) is not E:
        return 'c%x' % e
    r = _dig.get(e)
    if r is not None:
        return r
    if e.op == 'var':
        s = 'v' + e.a[0] + ':%d' % e.w
    elif e.op == 'concat':
        s = 'k(' + ','.join(digest(v) + '/%d' % w for v, w in e.a) + ')'
    else:
        s = e.op + '%d(' % e.w + ','.join(digest(a) if type(a) is E else 'c%x' % a for a in e.a) + ')'
    r = hashlib.sha256(s.encode()).hexdigest()[:24]
    _dig[e] = r
    return r


def cells_digest(cells):
    import hashlib
    h = hashlib.sha256()
    for c in cells:
        if type(c) is int:
            h.update(b'%02x' % c)
        elif c is None:
            h.update(b'??')
        else:
            h.update(('[%s.%d]' % (digest(c[0]), c[1])).encode())
    return h.hexdigest()[:24]


# ------------------------------------------------------------------ z3
_z3 = None


def z3mod():
    global _z3
    if _z3 is None:
        import z3
        _z3 = z3
    return _z3


def to_z3(e, w=None):
    z3 = z3mod()
    if type(e) is not E:
        return z3.BitVecVal(e, w)
    if e.z is not None:
        return e.z
    op = e.op
    if op == 'var':
        r = z3.BitVec(e.a[0], e.w)
    elif op == 'concat':
        parts = [to_z3(v, pw) for v, pw in e.a]
        r = z3.Concat(*parts)
    elif op == 'extract':
        r = z3.Extract(e.a[1], e.a[2], to_z3(e.a[0]))
    elif op == 'zext':
        r = z3.ZeroExt(e.w - e.a[0].w, to_z3(e.a[0]))
    elif op == 'sext':
        r = z3.SignExt(e.w - e.a[0].w, to_z3(e.a[0]))
    elif op == 'not':
        r = ~to_z3(e.a[0])
    elif op == 'ite':
        r = z3.If(to_z3(e.a[0]) == 1, to_z3(e.a[1], e.w), to_z3(e.a[2], e.w))
    else:
        x, y = e.a
        if op in ('eq', 'ult', 'slt'):
            aw = x.w if type(x) is E else y.w
            a = to_z3(x, aw)
            b = to_z3(y, aw)
            c = (a == b) if op == 'eq' else (z3.ULT(a, b) if op == 'ult' else (a < b))
            r = z3.If(c, z3.BitVecVal(1, 1), z3.BitVecVal(0, 1))
        else:
            a = to_z3(x, e.w)
            b = to_z3(y, e.w)
            if op == 'add': r = a + b
            elif op == 'sub': r = a - b
            elif op == 'mul': r = a * b
            elif op == 'udiv': r = z3.UDiv(a, b)
            elif op == 'urem': r = z3.URem(a, b)
            elif op == 'sdiv': r = a / b
            elif op == 'srem': r = z3.SRem(a, b)
            elif op == 'and': r = a & b
            elif op == 'or': r = a | b
            elif op == 'xor': r = a ^ b
            elif op == 'shl': r = a << b
            elif op == 'lshr': r = z3.LShR(a, b)
            elif op == 'ashr': r = a >> b
            else:
                raise NotImplementedError(op)
    e.z = r
    return r


def to_z3_bool(e):
    z3 = z3mod()
    if type(e) is not E:
        return z3.BoolVal(bool(e))
    if e.op == 'eq':
        x, y = e.a
        aw = x.w if type(x) is E else y.w
        return to_z3(x, aw) == to_z3(y, aw)
    if e.op == 'ult':
        x, y = e.a
        aw = x.w if type(x) is E else y.w
        return z3.ULT(to_z3(x, aw), to_z3(y, aw))
    if e.op == 'slt':
        x, y = e.a
        aw = x.w if type(x) is E else y.w
        return to_z3(x, aw) < to_z3(y, aw)
    if e.op == 'not':
        return z3.Not(to_z3_bool(e.a[0]))
    if e.w == 1 and e.op == 'and':
        return z3.And(to_z3_bool(e.a[0]), to_z3_bool(e.a[1]))
    if e.w == 1 and e.op == 'or':
        return z3.Or(to_z3_bool(e.a[0]), to_z3_bool(e.a[1]))
    return to_z3(e) == 1
