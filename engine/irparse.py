"""LLVM-14 textual IR (typed pointers, clang -O1) parser and linker for llsym.

parse_module(text) -> Module (types, globals, function headers + raw bodies).
Program(modules)   -> symbol resolution, global layout at concrete addresses,
                      lazy decoding of function bodies into instruction tuples.
"""
import re
import hashlib
import os
import pickle

TOK = re.compile(r'''
   (?P<ws>\s+)
 | (?P<str>c"(?:[^"\\]|\\[0-9A-Fa-f]{2}|\\\\)*")
 | (?P<qstr>"(?:[^"\\]|\\.)*")
 | (?P<lid>%(?:"(?:[^"\\]|\\.)*"|[-a-zA-Z$._0-9]+))
 | (?P<gid>@(?:"(?:[^"\\]|\\.)*"|[-a-zA-Z$._0-9]+))
 | (?P<comdat>\$(?:"(?:[^"\\]|\\.)*"|[-a-zA-Z$._0-9]+))
 | (?P<meta>![-a-zA-Z$._0-9]*)
 | (?P<attr>\#[0-9]+)
 | (?P<num>-?[0-9]+(?:\.[0-9]+(?:e[+-]?[0-9]+)?)?|0x[0-9A-Fa-f]+)
 | (?P<dots>\.\.\.)
 | (?P<word>[a-zA-Z_][a-zA-Z_0-9.]*)
 | (?P<p>[()\[\]{}<>,=*:])
''', re.X)


def tokenize(s):
    out = []
    i = 0
    n = len(s)
    m = TOK.match
    while i < n:
        mm = m(s, i)
        if not mm:
            raise SyntaxError('tok: ' + s[i:i + 40])
        i = mm.end()
        k = mm.lastgroup
        if k == 'ws':
            continue
        out.append((k, mm.group(k)))
    return out


class Ty(object):
    __slots__ = ('k', 'n', 'to', 'e', 'fs', 'packed', 'name', 'ret', 'ps', 'va', '_sa')

    def __init__(s, k, **kw):
        s.k = k
        s.n = s.to = s.e = s.fs = s.name = s.ret = s.ps = None
        s.packed = False
        s.va = False
        s._sa = None
        for a, b in kw.items():
            setattr(s, a, b)

    def __repr__(s):
        if s.k == 'int':
            return 'i%d' % s.n
        if s.k == 'ptr':
            return '%r*' % (s.to,)
        if s.k == 'named':
            return s.name
        if s.k == 'arr':
            return '[%d x %r]' % (s.n, s.e)
        if s.k == 'struct':
            return '{%s}' % ','.join(map(repr, s.fs))
        return s.k

    def __getstate__(s):
        return {a: getattr(s, a) for a in s.__slots__}

    def __setstate__(s, d):
        for a, b in d.items():
            setattr(s, a, b)


def TInt(n):
    return Ty('int', n=n)


def TPtr(to):
    return Ty('ptr', to=to)


VOID = Ty('void')
I8 = TInt(8)


class P(object):
    def __init__(s, toks):
        s.t = toks
        s.i = 0

    def peek(s, o=0):
        return s.t[s.i + o] if s.i + o < len(s.t) else ('eof', '')

    def next(s):
        r = s.peek()
        s.i += 1
        return r

    def accept(s, v):
        if s.peek()[1] == v:
            s.i += 1
            return True
        return False

    def expect(s, v):
        if not s.accept(v):
            raise SyntaxError('expected %r got %r near %r' % (v, s.peek(), s.t[max(0, s.i - 6):s.i + 4]))

    def at_end(s):
        return s.i >= len(s.t)

    def type(s):
        k, v = s.next()
        if k == 'word' and v[0] == 'i' and v[1:].isdigit():
            t = TInt(int(v[1:]))
        elif v == 'void':
            t = VOID
        elif v in ('float', 'double', 'x86_fp80', 'half', 'fp128'):
            t = Ty(v)
        elif v == 'opaque':
            t = Ty('opaque')
        elif v == 'ptr':
            t = TPtr(I8)
        elif v == 'label':
            t = Ty('label')
        elif v == 'metadata':
            t = Ty('metadata')
        elif v == 'token':
            t = Ty('token')
        elif k == 'lid':
            t = Ty('named', name=v)
        elif v == '[':
            n = int(s.next()[1])
            s.expect('x')
            e = s.type()
            s.expect(']')
            t = Ty('arr', n=n, e=e)
        elif v == '{':
            t = Ty('struct', fs=s.type_list('}'), packed=False)
        elif v == '<':
            if s.peek()[1] == '{':
                s.next()
                fs = s.type_list('}')
                s.expect('>')
                t = Ty('struct', fs=fs, packed=True)
            else:
                n = int(s.next()[1])
                s.expect('x')
                e = s.type()
                s.expect('>')
                t = Ty('vec', n=n, e=e)
        else:
            raise SyntaxError('type? %r %r near %r' % (k, v, s.t[max(0, s.i - 6):s.i + 4]))
        while True:
            if s.accept('*'):
                t = TPtr(t)
            elif s.peek()[1] == '(' and t.k not in ('label', 'metadata'):
                s.next()
                ps = []
                va = False
                while not s.accept(')'):
                    if s.peek()[0] == 'dots':
                        s.next()
                        va = True
                    else:
                        ps.append(s.type())
                    s.accept(',')
                t = Ty('fn', ret=t, ps=ps, va=va)
            else:
                break
        return t

    def type_list(s, close):
        fs = []
        while not s.accept(close):
            fs.append(s.type())
            s.accept(',')
        return fs

    PATTRS = {'noundef', 'nonnull', 'zeroext', 'signext', 'nocapture', 'readonly', 'writeonly', 'noalias',
              'returned', 'immarg', 'inrange', 'readnone', 'nofree', 'inreg', 'swiftself', 'nest'}

    def skip_pattrs(s):
        while True:
            k, v = s.peek()
            if v in s.PATTRS:
                s.next()
            elif v == 'align':
                s.next()
                s.next()
            elif v in ('dereferenceable', 'dereferenceable_or_null', 'sret', 'byval', 'byref', 'preallocated',
                       'inalloca', 'elementtype'):
                s.next()
                if s.peek()[1] == '(':
                    s.next()
                    d = 1
                    while d:
                        x = s.next()[1]
                        d += (x == '(') - (x == ')')
            else:
                break

    def value(s, ty):
        """operand of known type -> constant-expression tree"""
        k, v = s.next()
        if k == 'lid':
            return ('loc', v)
        if k == 'gid':
            return ('glob', v)
        if k == 'num':
            return ('num', v)
        if v == 'true':
            return ('num', '1')
        if v == 'false':
            return ('num', '0')
        if v == 'null':
            return ('num', '0')
        if v in ('undef', 'poison'):
            return ('zero', ty)
        if v == 'zeroinitializer':
            return ('zero', ty)
        if k == 'str':
            return ('cstr', v)
        if v in ('bitcast', 'inttoptr', 'ptrtoint', 'addrspacecast', 'trunc', 'zext', 'sext'):
            s.expect('(')
            t1 = s.type()
            x = s.value(t1)
            s.expect('to')
            t2 = s.type()
            s.expect(')')
            return ('cast', v, t1, x, t2)
        if v == 'getelementptr':
            s.accept('inbounds')
            s.expect('(')
            bt = s.type()
            s.expect(',')
            pt = s.type()
            base = s.value(pt)
            idx = []
            while s.accept(','):
                s.skip_pattrs()
                it = s.type()
                idx.append((it, s.value(it)))
            s.expect(')')
            return ('gep', bt, base, idx)
        if v in ('add', 'sub', 'mul', 'and', 'or', 'xor', 'shl', 'lshr'):
            while s.peek()[1] in ('nuw', 'nsw', 'exact'):
                s.next()
            s.expect('(')
            t1 = s.type()
            a = s.value(t1)
            s.expect(',')
            t2 = s.type()
            b = s.value(t2)
            s.expect(')')
            return ('binop', v, t1, a, b)
        if v == '[':
            es = []
            while not s.accept(']'):
                et = s.type()
                es.append((et, s.value(et)))
                s.accept(',')
            return ('agg', es)
        if v == '{':
            es = []
            while not s.accept('}'):
                et = s.type()
                es.append((et, s.value(et)))
                s.accept(',')
            return ('agg', es)
        if v == '<' and s.peek()[1] == '{':
            s.next()
            es = []
            while not s.accept('}'):
                et = s.type()
                es.append((et, s.value(et)))
                s.accept(',')
            s.expect('>')
            return ('agg', es)
        raise SyntaxError('value? %r %r near %r' % (k, v, s.t[max(0, s.i - 8):s.i + 4]))


LINK = {'private', 'internal', 'available_externally', 'linkonce', 'weak', 'common', 'appending', 'extern_weak',
        'linkonce_odr', 'weak_odr', 'external', 'dso_local', 'dso_preemptable', 'default', 'hidden', 'protected',
        'unnamed_addr', 'local_unnamed_addr', 'thread_local', 'dllimport', 'dllexport'}


class Module(object):
    def __init__(s, name=''):
        s.name = name
        s.types = {}
        s.globals = {}
        s.funcs = {}
        s.aliases = {}
        s.order = []
        s.attrs = {}
        s.locals = set()
        s.uid = None

    def resolve(s, t):
        while t.k == 'named':
            t = s.types[t.name]
        return t

    def size_align(s, t):
        if t._sa is not None:
            return t._sa
        r = s._size_align(t)
        t._sa = r
        return r

    def _size_align(s, t):
        k = t.k
        if k == 'named':
            return s.size_align(s.types[t.name])
        if k == 'int':
            b = max(1, (t.n + 7) // 8)
            b = 1 << (b - 1).bit_length()
            return b, min(b, 8) if b <= 8 else 16
        if k == 'ptr' or k == 'fn':
            return 8, 8
        if k == 'float':
            return 4, 4
        if k == 'double':
            return 8, 8
        if k == 'x86_fp80':
            return 16, 16
        if k == 'arr':
            z, a = s.size_align(t.e)
            return z * t.n, a
        if k == 'vec':
            z, a = s.size_align(t.e)
            return z * t.n, z * t.n
        if k == 'struct':
            off = 0
            al = 1
            for f in t.fs:
                z, a = s.size_align(f)
                if t.packed:
                    a = 1
                off = (off + a - 1) // a * a + z
                al = max(al, a)
            return (off + al - 1) // al * al, al
        if k == 'opaque':
            return 0, 1
        raise NotImplementedError(t)

    def field_offset(s, t, idx):
        off = 0
        for i, f in enumerate(t.fs):
            z, a = s.size_align(f)
            if t.packed:
                a = 1
            off = (off + a - 1) // a * a
            if i == idx:
                return off
            off += z
        raise IndexError(idx)


def parse_module(text, name=''):
    mod = Module(name)
    lines = text.split('\n')
    i = 0
    n = len(lines)
    while i < n:
        ln = lines[i]
        i += 1
        if not ln:
            continue
        c = ln[0]
        if c in ';!' or c == '$' or ln.startswith(('source_filename', 'target')):
            continue
        if ln.startswith('attributes'):
            m = re.match(r'attributes (#\d+) = \{(.*)\}', ln)
            if m:
                mod.attrs[m.group(1)] = m.group(2)
            continue
        if c == '%':
            p = P(tokenize(ln))
            name_ = p.next()[1]
            p.expect('=')
            p.expect('type')
            mod.types[name_] = p.type()
            continue
        if c == '@':
            parse_global(P(tokenize(ln)), mod)
            continue
        if ln.startswith('declare'):
            parse_fn_header(P(tokenize(ln)), mod, False)
            continue
        if ln.startswith('define'):
            body = []
            hdr = ln
            while True:
                l2 = lines[i]
                i += 1
                if l2 == '}':
                    break
                body.append(l2)
            toks = tokenize(hdr[:hdr.rindex('{')])
            f = parse_fn_header(P(toks), mod, True)
            f['body'] = body
    return mod


def parse_global(p, mod):
    name = p.next()[1]
    p.expect('=')
    ext = False
    weak = False
    while p.peek()[1] in LINK:
        if p.peek()[1] in ('private', 'internal'):
            mod.locals.add(name)
        if p.peek()[1] in ('external', 'extern_weak'):
            ext = True
        if p.peek()[1] in ('linkonce_odr', 'weak_odr', 'weak', 'linkonce', 'common'):
            weak = True
        p.next()
    if p.peek()[1] == 'alias':
        p.next()
        p.type()
        p.accept(',')
        t = p.type()
        v = p.value(t)
        mod.aliases[name] = v
        return
    const = p.next()[1]
    t = p.type()
    init = None
    if not ext and p.peek()[1] not in (',', '') and not p.at_end():
        init = p.value(t)
    mod.globals[name] = dict(ty=t, init=init, ext=ext, const=(const == 'constant'), weak=weak)
    mod.order.append(name)


def parse_fn_header(p, mod, defined):
    p.next()
    local = False
    while True:
        v = p.peek()[1]
        if v in ('private', 'internal'):
            local = True
        if v in LINK or v in ('noundef', 'nonnull', 'zeroext', 'signext', 'noalias', 'fastcc', 'ccc', 'coldcc'):
            p.next()
        elif v == 'align':
            p.next()
            p.next()
        elif v.startswith('dereferenceable'):
            p.next()
            p.expect('(')
            p.next()
            p.expect(')')
        else:
            break
    ret = p.type()
    name = p.next()[1]
    if local:
        mod.locals.add(name)
    p.expect('(')
    params = []
    va = False
    while not p.accept(')'):
        if p.peek()[0] == 'dots':
            p.next()
            va = True
            continue
        t = p.type()
        p.skip_pattrs()
        pn = None
        if p.peek()[0] == 'lid':
            pn = p.next()[1]
        params.append((t, pn))
        p.accept(',')
    rest = [v for k, v in p.t[p.i:]]
    f = dict(name=name, ret=ret, params=params, va=va, body=None, attrs=rest, mod=mod)
    old = mod.funcs.get(name)
    if old is None or defined:
        mod.funcs[name] = f
    return f


# ---------------------------------------------------------------------------
# decoded functions
class Func(object):
    __slots__ = ('name', 'params', 'blocks', 'entry', 'ret', 'addr', 'nregs', 'mod')


GLOBAL_BASE = 0x10000000
FUNC_BASE = 0x400000
EXT_OBJ_SIZE = 256


class Program(object):
    """Linked set of modules with concrete global layout."""

    def __init__(s, modules):
        s.modules = modules
        s.fdefs = {}      # name -> header dict (defined)
        s.fdecl = {}      # name -> header dict (declared only)
        s.gdefs = {}      # name -> (mod, gdict)
        s.gaddr = {}      # name -> address
        s.gsize = {}
        s.faddr = {}
        s.addr2f = {}
        s.decoded = {}
        s.aliases = {}
        for i, m in enumerate(modules):
            m.uid = i
        for m in modules:
            for n, f in m.funcs.items():
                qn = s.q(m, n)
                if f['body'] is not None:
                    s.fdefs.setdefault(qn, f)
                else:
                    s.fdecl.setdefault(qn, f)
            for n, g in m.globals.items():
                qn = s.q(m, n)
                cur = s.gdefs.get(qn)
                if cur is None or (cur[1]['init'] is None and g['init'] is not None):
                    s.gdefs[qn] = (m, g)
            for n, v in m.aliases.items():
                s.aliases.setdefault(s.q(m, n), (m, v))
        a = FUNC_BASE
        for n in list(s.fdefs) + [x for x in s.fdecl if x not in s.fdefs]:
            s.faddr[n] = a
            s.addr2f[a] = n
            a += 16
        a = GLOBAL_BASE
        s.glayout = []
        for n, (m, g) in s.gdefs.items():
            if g['init'] is None:
                z, al = EXT_OBJ_SIZE, 16
            else:
                z, al = m.size_align(g['ty'])
                al = max(al, 16)
            a = (a + al - 1) // al * al
            s.gaddr[n] = a
            s.gsize[n] = max(z, 1)
            s.glayout.append((n, a, max(z, 1)))
            a += max(z, 1) + 32
        s.gend = a
        s._ginit = None

    @staticmethod
    def q(m, n):
        return n + '#%d' % m.uid if n in m.locals else n

    # ---- symbol addresses
    def sym_addr(s, n):
        if n in s.aliases:
            m, v = s.aliases[n]
            return s.const(m, v, None)
        a = s.gaddr.get(n)
        if a is not None:
            return a
        a = s.faddr.get(n)
        if a is not None:
            return a
        # unknown symbol referenced only: give it a function slot
        a = FUNC_BASE + 16 * len(s.faddr)
        s.faddr[n] = a
        s.addr2f[a] = n
        return a

    # ---- constant expression -> int | nested list
    def const(s, m, v, ty):
        k = v[0]
        if k == 'num':
            if ty is not None and ty.k in ('double', 'float'):
                return s.fpconst(v[1], ty)
            x = int(v[1], 0)
            if ty is not None and ty.k == 'int':
                x &= (1 << ty.n) - 1
            elif x < 0:
                x &= (1 << 64) - 1
            return x
        if k == 'glob':
            return s.sym_addr(s.q(m, v[1]))
        if k == 'zero':
            t = m.resolve(v[1]) if v[1] is not None else None
            if t is None or t.k in ('int', 'ptr', 'double', 'float'):
                return 0
            if t.k == 'struct':
                return [s.const(m, ('zero', f), f) for f in t.fs]
            if t.k == 'arr':
                return [s.const(m, ('zero', t.e), t.e) for _ in range(t.n)]
            return 0
        if k == 'cast':
            _, op, t1, x, t2 = v
            r = s.const(m, x, t1)
            if op == 'trunc':
                r &= (1 << t2.n) - 1
            elif op == 'sext':
                if r >> (t1.n - 1):
                    r = (r - (1 << t1.n)) & ((1 << t2.n) - 1)
            elif op == 'ptrtoint' and t2.k == 'int' and t2.n < 64:
                r &= (1 << t2.n) - 1
            return r
        if k == 'gep':
            _, bt, base, idx = v
            a = s.const(m, base, None)
            t = bt
            first = True
            for it, iv in idx:
                i = s.const(m, iv, it)
                if it.k == 'int' and i >> (it.n - 1):
                    i -= 1 << it.n
                if first:
                    a += i * m.size_align(t)[0]
                    first = False
                    continue
                r = m.resolve(t)
                if r.k == 'struct':
                    a += m.field_offset(r, i)
                    t = r.fs[i]
                else:
                    a += i * m.size_align(r.e)[0]
                    t = r.e
            return a & ((1 << 64) - 1)
        if k == 'binop':
            _, op, t, a, b = v
            x = s.const(m, a, t)
            y = s.const(m, b, t)
            mk = (1 << t.n) - 1
            return {'add': x + y, 'sub': x - y, 'mul': x * y, 'and': x & y, 'or': x | y, 'xor': x ^ y,
                    'shl': x << y, 'lshr': x >> y}[op] & mk
        if k == 'agg':
            return [s.const(m, ev, et) for et, ev in v[1]]
        if k == 'cstr':
            raw = v[1][2:-1]
            bs = []
            j = 0
            while j < len(raw):
                if raw[j] == '\\':
                    if raw[j + 1] == '\\':
                        bs.append(92)
                        j += 2
                    else:
                        bs.append(int(raw[j + 1:j + 3], 16))
                        j += 3
                else:
                    bs.append(ord(raw[j]))
                    j += 1
            return bs
        raise NotImplementedError(v)

    def fpconst(s, txt, ty):
        import struct
        if txt.startswith('0x'):
            x = int(txt, 16)
            if ty.k == 'float':
                d = struct.unpack('<d', struct.pack('<Q', x))[0]
                return struct.unpack('<I', struct.pack('<f', d))[0]
            return x
        d = float(txt)
        if ty.k == 'float':
            return struct.unpack('<I', struct.pack('<f', d))[0]
        return struct.unpack('<Q', struct.pack('<d', d))[0]

    # ---- serialise a constant into bytes
    def flatten(s, m, ty, c, out, off):
        t = m.resolve(ty)
        k = t.k
        if k == 'int' or k == 'ptr' or k in ('double', 'float') or k == 'fn':
            z = m.size_align(t)[0]
            if isinstance(c, list):
                raise ValueError('scalar expected')
            out[off:off + z] = list((c & ((1 << (8 * z)) - 1)).to_bytes(z, 'little'))
            return
        if k == 'arr':
            z = m.size_align(t.e)[0]
            if isinstance(c, list) and c and not isinstance(c[0], list) and m.resolve(t.e).k == 'int' and z == 1:
                out[off:off + len(c)] = c
                return
            if not isinstance(c, list):
                return
            for i, x in enumerate(c):
                s.flatten(m, t.e, x, out, off + i * z)
            return
        if k == 'struct':
            if not isinstance(c, list):
                return
            for i, x in enumerate(c):
                s.flatten(m, t.fs[i], x, out, off + m.field_offset(t, i))
            return
        raise NotImplementedError(t)

    def global_images(s):
        """[(name, addr, bytes-list, const?)] for every global (externals zero)."""
        if s._ginit is not None:
            return s._ginit
        res = []
        for n, a, z in s.glayout:
            m, g = s.gdefs[n]
            data = [0] * z
            if g['init'] is not None:
                c = s.const(m, g['init'], g['ty'])
                s.flatten(m, g['ty'], c, data, 0)
            res.append((n, a, data, g['const'] and g['init'] is not None))
        s._ginit = res
        return res

    # ---- functions
    def func_by_addr(s, a):
        return s.addr2f.get(a)

    def get(s, name):
        f = s.decoded.get(name)
        if f is None:
            h = s.fdefs.get(name)
            if h is None:
                return None
            f = decode_function(s, h)
            f.name = name
            f.addr = s.faddr[name]
            s.decoded[name] = f
        return f


# ---------------------------------------------------------------------------
BINOPS = {'add', 'sub', 'mul', 'and', 'or', 'xor', 'shl', 'lshr', 'ashr', 'udiv', 'urem', 'sdiv', 'srem'}
CASTS = {'zext', 'trunc', 'sext', 'bitcast', 'ptrtoint', 'inttoptr', 'addrspacecast'}
_MD = re.compile(r',\s*![a-zA-Z_.]+ !\d+')
_LBL = re.compile(r'^([-a-zA-Z$._0-9]+|"[^"]*"):')


def decode_function(prog, h):
    m = h['mod']
    f = Func()
    f.name = h['name']
    f.mod = m
    f.ret = h['ret']
    params = []
    for i, (t, pn) in enumerate(h['params']):
        params.append(pn if pn is not None else '%' + str(i))
    f.params = params
    first_label = '%' + str(len(params))
    blocks = []
    cur = None
    for ln in h['body']:
        st = ln.lstrip()
        if not st or st[0] == ';':
            continue
        sc = ln.find(' ; ')
        if sc >= 0 and '"' not in ln[sc:]:
            ln = ln[:sc]
        mm = _LBL.match(ln)
        if mm:
            cur = ['%' + mm.group(1), []]
            blocks.append(cur)
            continue
        if cur is None:
            cur = [first_label, []]
            blocks.append(cur)
        cur[1].append(ln.strip())
    f.entry = blocks[0][0]
    f.blocks = {}
    for lab, ins in blocks:
        joined = []
        for ln in ins:
            if joined and (re.match(r'^(catch|cleanup|filter|to label)\b', ln) or
                           (joined[-1].startswith('switch') and not joined[-1].rstrip().endswith(']'))):
                joined[-1] += ' ' + ln
            else:
                joined.append(ln)
        phis = []
        code = []
        for ln in joined:
            ln = _MD.sub('', ln)
            try:
                ins_ = decode_instr(prog, m, P(tokenize(ln)))
            except (NotImplementedError, SyntaxError, KeyError, ValueError) as ex:
                ins_ = ('unsupported', None, ln, repr(ex))
            if ins_ is None:
                continue
            if ins_[0] == 'phi':
                phis.append(ins_)
            else:
                code.append(ins_)
        f.blocks[lab] = (phis, code)
    return f


def decode_instr(prog, m, p):
    dst = None
    if p.peek(1)[1] == '=':
        dst = p.next()[1]
        p.next()
    op = p.next()[1]
    if op in ('tail', 'musttail', 'notail'):
        op = p.next()[1]

    def V(t):
        v = p.value(t)
        if v[0] == 'loc':
            return v[1]
        return prog.const(m, v, t)

    def width(t):
        t = m.resolve(t)
        if t.k == 'int':
            return t.n
        if t.k in ('ptr', 'double', 'fn'):
            return 64
        if t.k == 'float':
            return 32
        return None

    if op in BINOPS:
        while p.peek()[1] in ('nuw', 'nsw', 'exact'):
            p.next()
        t = p.type()
        a = V(t)
        p.expect(',')
        b = V(t)
        return ('bin', dst, op, width(t), a, b)
    if op == 'icmp':
        pred = p.next()[1]
        t = p.type()
        a = V(t)
        p.expect(',')
        b = V(t)
        return ('icmp', dst, pred, width(t), a, b)
    if op in CASTS:
        t1 = p.type()
        a = V(t1)
        p.expect('to')
        t2 = p.type()
        return ('cast', dst, op, width(t1), width(t2), a)
    if op == 'getelementptr':
        p.accept('inbounds')
        bt = p.type()
        p.expect(',')
        pt = p.type()
        base = V(pt)
        coff = 0
        dyn = []
        t = bt
        first = True
        while p.accept(','):
            p.skip_pattrs()
            it = p.type()
            iv = V(it)
            if first:
                sc = m.size_align(t)[0]
                first = False
            else:
                r = m.resolve(t)
                if r.k == 'struct':
                    coff += m.field_offset(r, iv)
                    t = r.fs[iv]
                    continue
                sc = m.size_align(r.e)[0]
                t = r.e
            if type(iv) is str:
                dyn.append((iv, sc, it.n))
            else:
                if iv >> (it.n - 1):
                    iv -= 1 << it.n
                coff += iv * sc
        return ('gep', dst, base, coff, tuple(dyn))
    if op == 'load':
        atomic = p.accept('atomic')
        p.accept('volatile')
        t = p.type()
        p.expect(',')
        pt = p.type()
        a = V(pt)
        rt = m.resolve(t)
        if rt.k in ('struct', 'arr', 'vec'):
            raise NotImplementedError('aggregate load')
        return ('load', dst, a, m.size_align(t)[0], width(t), atomic)
    if op == 'store':
        atomic = p.accept('atomic')
        p.accept('volatile')
        t = p.type()
        v = V(t)
        p.expect(',')
        pt = p.type()
        a = V(pt)
        rt = m.resolve(t)
        if rt.k in ('struct', 'arr', 'vec'):
            raise NotImplementedError('aggregate store')
        return ('store', None, a, v, m.size_align(t)[0], width(t), atomic)
    if op == 'alloca':
        t = p.type()
        n = 1
        if p.accept(','):
            if p.peek()[1] != 'align':
                it = p.type()
                n = V(it)
        z, a = m.size_align(t)
        return ('alloca', dst, z, n)
    if op == 'select':
        ct = p.type()
        c = V(ct)
        p.expect(',')
        t = p.type()
        a = V(t)
        p.expect(',')
        t2 = p.type()
        b = V(t2)
        return ('select', dst, c, a, b, width(t))
    if op == 'phi':
        t = p.type()
        inc = {}
        while p.accept('['):
            if p.peek()[1] == 'undef' and width(t) is not None and m.resolve(t).k == 'int':
                # an automatic variable that is read without having been written on this edge: an arbitrary value, kept as
                # such (the executor makes it a fresh never-written-memory symbol) instead of folding it to zero
                p.next()
                v = ('UNDEF', width(t))
            else:
                v = V(t)
            p.expect(',')
            pred = p.next()[1]
            p.expect(']')
            p.accept(',')
            inc[pred] = v
        return ('phi', dst, inc)
    if op == 'br':
        if p.peek()[1] == 'label':
            p.next()
            return ('jmp', None, p.next()[1])
        ct = p.type()
        c = V(ct)
        p.expect(',')
        p.expect('label')
        a = p.next()[1]
        p.expect(',')
        p.expect('label')
        b = p.next()[1]
        return ('br', None, c, a, b)
    if op == 'switch':
        t = p.type()
        v = V(t)
        p.expect(',')
        p.expect('label')
        d = p.next()[1]
        p.expect('[')
        cases = []
        while not p.accept(']'):
            ct = p.type()
            cv = V(ct)
            p.expect(',')
            p.expect('label')
            tl = p.next()[1]
            cases.append((cv, tl))
        return ('switch', None, v, width(t), d, tuple(cases))
    if op == 'ret':
        t = p.type()
        if t.k == 'void':
            return ('ret', None, None)
        return ('ret', None, V(t))
    if op == 'unreachable':
        return ('unreachable', None)
    if op == 'resume':
        t = p.type()
        return ('resume', None, V(t))
    if op == 'landingpad':
        p.type()
        clauses = []
        cleanup = p.accept('cleanup')
        while not p.at_end():
            kind = p.next()[1]
            if kind == 'cleanup':
                cleanup = True
                continue
            ct = p.type()
            cv = V(ct)
            clauses.append((kind, cv))
        return ('landingpad', dst, cleanup, tuple(clauses))
    if op == 'extractvalue':
        t = p.type()
        v = V(t)
        path = []
        while p.accept(','):
            path.append(int(p.next()[1]))
        return ('extractvalue', dst, v, tuple(path))
    if op == 'insertvalue':
        t = p.type()
        v = V(t)
        p.expect(',')
        et = p.type()
        ev = V(et)
        path = []
        while p.accept(','):
            path.append(int(p.next()[1]))
        return ('insertvalue', dst, v, ev, tuple(path))
    if op == 'atomicrmw':
        p.accept('volatile')
        aop = p.next()[1]
        pt = p.type()
        a = V(pt)
        p.expect(',')
        t = p.type()
        v = V(t)
        return ('atomicrmw', dst, aop, a, v, m.size_align(t)[0], width(t))
    if op == 'cmpxchg':
        p.accept('weak')
        p.accept('volatile')
        pt = p.type()
        a = V(pt)
        p.expect(',')
        t = p.type()
        c = V(t)
        p.expect(',')
        t2 = p.type()
        n = V(t2)
        return ('cmpxchg', dst, a, c, n, m.size_align(t)[0], width(t))
    if op == 'fence':
        return None
    if op == 'freeze':
        t = p.type()
        return ('copy', dst, V(t))
    if op in ('call', 'invoke'):
        while True:
            v = p.peek()[1]
            if v in ('fastcc', 'ccc', 'coldcc') or v in P.PATTRS:
                p.next()
            elif v == 'align':
                p.next()
                p.next()
            elif v.startswith('dereferenceable'):
                p.next()
                p.expect('(')
                p.next()
                p.expect(')')
            else:
                break
        rt = p.type()
        if rt.k == 'fn':
            rt = rt.ret
        elif rt.k == 'ptr' and rt.to.k == 'fn' and p.peek()[1] != '(' and p.peek()[0] in ('lid', 'gid') and False:
            pass
        callee = p.next()
        p.expect('(')
        args = []
        while not p.accept(')'):
            if p.peek()[1] == 'metadata':
                while p.peek()[1] not in (',', ')'):
                    p.next()
                p.accept(',')
                args.append(0)
                continue
            t = p.type()
            p.skip_pattrs()
            args.append(V(t))
            p.accept(',')
        normal = unwind = None
        rest = [v for k, v in p.t[p.i:]]
        if op == 'invoke':
            ti = rest.index('to')
            normal = rest[ti + 2]
            unwind = rest[rest.index('unwind') + 2]
        if callee[0] == 'gid':
            name = prog.q(m, callee[1])
            if name in prog.aliases and prog.aliases[name][1][0] == 'glob':
                am = prog.aliases[name][0]
                name = prog.q(am, prog.aliases[name][1][1])
            target = name
        else:
            target = ('reg', callee[1])
        isvoid = rt.k == 'void'
        return ('call', None if isvoid else dst, target, tuple(args), normal, unwind)
    raise NotImplementedError(op)


# ---------------------------------------------------------------------------
def load_module_cached(path, cache_dir):
    txt = open(path).read()
    h = hashlib.sha256(('parser-v2\n' + txt).encode()).hexdigest()[:24]
    cp = os.path.join(cache_dir, h + '.pm')
    if os.path.exists(cp):
        try:
            with open(cp, 'rb') as fh:
                return pickle.load(fh)
        except Exception:
            pass
    mod = parse_module(txt, os.path.basename(path))
    os.makedirs(cache_dir, exist_ok=True)
    tmp = cp + '.%d' % os.getpid()
    with open(tmp, 'wb') as fh:
        pickle.dump(mod, fh, protocol=pickle.HIGHEST_PROTOCOL)
    os.replace(tmp, cp)
    return mod
