"""CLI entry: ./check <ID> [--tier quick|thorough] [--replay path]"""
import importlib
import json
import os
import sys

HERE = os.path.dirname(os.path.abspath(__file__))
sys.path.insert(0, HERE)
sys.path.insert(0, os.path.join(os.path.dirname(HERE), 'props'))

import build
import framework


def main():
    args = sys.argv[1:]
    if not args:
        print('usage: check <ID> [--tier quick|thorough] [--replay path]')
        return 2
    pid = args[0].upper()
    tier = os.environ.get('VERIF_TIER', 'quick')
    replay = None
    i = 1
    while i < len(args):
        if args[i] == '--tier':
            tier = args[i + 1]
            i += 2
        elif args[i] == '--replay':
            replay = args[i + 1]
            i += 2
        else:
            i += 1
    seed = int(os.environ.get('VERIF_SEED', '1'))
    mod = importlib.import_module(pid.lower())
    if replay:
        return do_replay(pid, mod, replay)
    tasks, meta = mod.tasks(tier, seed)
    return framework.run_property(pid, tasks, tier, seed, meta)


def do_replay(pid, mod, path):
    d = json.load(open(path))
    tasks, meta = mod.tasks('quick', 1)
    t = None
    for x in tasks:
        if x.tid == d['task']:
            t = x
    if t is None:
        # rebuild from the recorded harness text
        t = framework.Task(d['task'], d['harness'], d['entry'])
    else:
        # replay against the harness regenerated from the current tree
        pass
    ok, detail = framework.native_confirm(t, d['violation'])
    print('replay %s: %s' % (d['task'], d['violation']['msg']))
    print('  native: %s' % detail)
    if ok:
        print('VIOLATION property=%s replay=%s' % (pid, path))
        return 1
    print('not reproduced')
    return 0


if __name__ == '__main__':
    sys.exit(main())
