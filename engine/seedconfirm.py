"""Confirm a sub-agent's seeded change in its scratch worktree and file it under /verif/seeded/.
usage: seedconfirm.py <worktree> <mutation-dir> <property-id> <seed-name>
Steps (all in the scratch worktree, never in /repo): patch applies; library + tests build; the 124 baseline tests pass;
the demonstration fails with the patch and passes without.  Then copies patch.diff, demo.cpp, README.txt and writes meta.json."""
import json
import os
import shutil
import subprocess
import sys
import time

VERIF = os.path.dirname(os.path.dirname(os.path.abspath(__file__)))


def sh(cmd, timeout=1800, **kw):
    try:
        r = subprocess.run(cmd, shell=True, stdout=subprocess.PIPE, stderr=subprocess.STDOUT, text=True, timeout=timeout, **kw)
        return r.returncode, r.stdout
    except subprocess.TimeoutExpired as e:
        return -9, 'TIMEOUT ' + (e.stdout or '' if isinstance(e.stdout, str) else '')


def main():
    wt, mdir, pid, name = sys.argv[1:5]
    bdir = None
    for b in ('build', '_build'):
        c = os.path.join(wt, b, 'CMakeCache.txt')
        if os.path.exists(c) and ('CMAKE_HOME_DIRECTORY:INTERNAL=%s\n' % wt) in open(c).read():
            bdir = os.path.join(wt, b)
    if bdir is None:
        bdir = os.path.join(wt, 'build')
        rc, o = sh('cmake -G Ninja -S %s -B %s -DOPTION_RUN_DOXYGEN=OFF -DOPTION_BUILD_TESTS=ON -DOPTION_BUILD_EXAMPLES=OFF' % (wt, bdir))
        if rc:
            print('configure failed', o[-2000:])
            return 2
    patch = os.path.join(mdir, 'patch.diff')
    # keep only changes to the library sources
    rc, o = sh('git -C %s checkout -- src' % wt)
    rc, o = sh('git -C %s apply --include="src/*" %s' % (wt, patch))
    if rc:
        print('patch does not apply:', o[-1000:])
        return 2
    rc, files = sh('git -C %s diff --stat -- src' % wt)
    res = dict(property=pid, name=name, files_changed=files.strip().split('\n'))
    ok = True
    try:
        rc, o = sh('cmake --build %s -j12' % bdir)
        res['build_with_patch'] = rc == 0
        if rc:
            print('build failed with patch', o[-3000:])
            return 1
        rc, o = sh("ctest --test-dir %s -j8 --timeout 120 -E '^(File|ObjectHeaderBase)$'" % bdir)
        tail = [l for l in o.split('\n') if 'tests passed' in l or 'tests failed' in l]
        res['tests_with_patch'] = tail[-1].strip() if tail else o[-300:]
        res['tests_pass_with_patch'] = rc == 0
        libdir = os.path.join(bdir, 'src', 'Vector', 'BLF')
        demo = os.path.join(mdir, 'demo.cpp')
        exe = os.path.join(mdir, 'demo_confirm')
        extra = os.environ.get('DEMO_FLAGS', '')
        txt = open(demo).read()
        inc = '-I %s/src -I %s/src' % (wt, bdir)

        def build_demo():
            return sh('g++ -std=c++11 -O1 -g %s %s %s -L %s -lVector_BLF -lpthread -lz -o %s' % (extra, inc, demo, libdir, exe))

        def run_demo():
            t = time.time()
            rc, o = sh('LD_LIBRARY_PATH=%s timeout 60 %s' % (libdir, exe), cwd=mdir, timeout=90)
            return rc, o[-600:], time.time() - t
        rc, o = build_demo()
        if rc:
            print('demo build failed', o[-2000:])
            res['demo_build'] = False
            ok = False
        else:
            fails = 0
            runs = []
            for i in range(3):
                rc, o, dt = run_demo()
                runs.append((rc, round(dt, 1)))
                if rc != 0:
                    fails += 1
            res['demo_with_patch'] = runs
            res['demo_fails_with_patch'] = fails
            if fails == 0:
                ok = False
    finally:
        sh('git -C %s checkout -- src' % wt)
    rc, o = sh('cmake --build %s -j12' % bdir)
    if ok or res.get('demo_build', True):
        rc, o = sh('g++ -std=c++11 -O1 -g %s %s %s -L %s -lVector_BLF -lpthread -lz -o %s' % (
            os.environ.get('DEMO_FLAGS', ''), '-I %s/src -I %s/src' % (wt, bdir), os.path.join(mdir, 'demo.cpp'), os.path.join(bdir, 'src', 'Vector', 'BLF'),
            os.path.join(mdir, 'demo_confirm')))
        runs = []
        for i in range(3):
            try:
                r = subprocess.run('LD_LIBRARY_PATH=%s timeout 60 %s' % (os.path.join(bdir, 'src', 'Vector', 'BLF'),
                                                                      os.path.join(mdir, 'demo_confirm')), shell=True, cwd=mdir,
                                   stdout=subprocess.PIPE, stderr=subprocess.STDOUT, text=True, timeout=90)
                runs.append(r.returncode)
            except subprocess.TimeoutExpired:
                runs.append(-9)
        res['demo_without_patch'] = runs
        if any(runs):
            ok = False
    res['confirmed'] = bool(ok and res.get('tests_pass_with_patch'))
    print(json.dumps(res, indent=1))
    if res['confirmed']:
        dst = os.path.join(VERIF, 'seeded', name)
        os.makedirs(dst, exist_ok=True)
        # patch restricted to src
        rc, o = sh('git -C %s apply --include="src/*" %s && git -C %s diff -- src > %s/patch.diff; git -C %s checkout -- src' % (
            wt, patch, wt, dst, wt))
        shutil.copy(os.path.join(mdir, 'demo.cpp'), dst)
        shutil.copy(os.path.join(mdir, 'README.txt'), dst)
        meta = dict(property=pid, name=name, confirmed_by='engine/seedconfirm.py in scratch worktree ' + wt,
                    what_i_ran=['git apply patch.diff (src only)', 'cmake --build', "ctest -E '^(File|ObjectHeaderBase)$' (the two baseline failures)",
                                'demo.cpp built against the patched library: 3 runs', 'same against the unpatched library: 3 runs'],
                    results=res, needs_to_manifest='see README.txt (written by the sub-agent)')
        json.dump(meta, open(os.path.join(dst, 'meta.json'), 'w'), indent=1)
    return 0 if res['confirmed'] else 1


if __name__ == '__main__':
    sys.exit(main())
