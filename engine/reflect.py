"""Reflection over the library's public headers, regenerated from /repo at run time.

 * class list + type codes: the `#include <Vector/BLF/X.h> // NAME = n` table in File.h
   and the ObjectType enumerators (independent of the switch in File.cpp)
 * member lists: clang -fdump-record-layouts on a TU that includes <Vector/BLF.h>
 * container <-> length-field pairs: from the READER side (`X.resize(L)` in T::read)
"""
import hashlib
import json
import os
import re
import subprocess

import build


def object_types():
    """enumerator name -> value from ObjectHeaderBase.h"""
    txt = open(os.path.join(build.BLF, 'ObjectHeaderBase.h')).read()
    m = re.search(r'enum class ObjectType[^{]*\{(.*?)\};', txt, re.S)
    out = {}
    for nm, val in re.findall(r'^\s*(\w+)\s*=\s*(\d+)', m.group(1), re.M):
        out[nm] = int(val)
    return out


def type_table():
    """[(class, enumerator, code)] from the include comments of File.h"""
    txt = open(os.path.join(build.BLF, 'File.h')).read()
    out = []
    for cls, nm, val in re.findall(r'#include <Vector/BLF/(\w+)\.h>[ \t]*//[ \t]*(\w+)[ \t]*=[ \t]*(\d+)', txt):
        out.append((cls, nm, int(val)))
    return out


def all_headers():
    return sorted(os.path.basename(p)[:-2] for p in
                  __import__('glob').glob(os.path.join(build.BLF, '*.h')))


SCALARS = {
    'uint8_t': 1, 'uint16_t': 2, 'uint32_t': 4, 'uint64_t': 8, 'int8_t': 1, 'int16_t': 2, 'int32_t': 4, 'int64_t': 8,
    'char': 1, 'unsigned char': 1, 'signed char': 1, 'bool': 1, 'short': 2, 'unsigned short': 2, 'int': 4,
    'unsigned int': 4, 'long': 8, 'unsigned long': 8, 'long long': 8, 'unsigned long long': 8, 'double': 8,
    'float': 4, 'WORD': 2, 'DWORD': 4, 'BYTE': 1, 'ULONGLONG': 8, 'ULONG': 4, 'LONGLONG': 8, 'LONG': 4,
    'std::streamsize': 8, '_Bool': 1,
}


class Leaf(object):
    def __init__(s, path, kind, ctype, off, size=None, elem=None, count=None):
        s.path = path
        s.kind = kind       # int | double | array | vector | string | vecstruct | other
        s.ctype = ctype
        s.off = off
        s.size = size
        s.elem = elem
        s.count = count

    def to_json(s):
        return s.__dict__


def _layouts(classes):
    build.ensure_gen()
    src = '#include <Vector/BLF.h>\n' + ''.join('#include <Vector/BLF/%s.h>\n' % h for h in all_headers()) + \
          'using namespace Vector::BLF;\n' \
          'unsigned long f() { return 0' + ''.join(' + sizeof(%s)' % c for c in classes) + '; }\n'
    key = hashlib.sha256((src + build.header_digest()).encode()).hexdigest()[:24]
    d = os.path.join(build.CACHE, 'refl')
    os.makedirs(d, exist_ok=True)
    out = os.path.join(d, key + '.txt')
    if not os.path.exists(out):
        p = os.path.join(d, key + '.cpp')
        open(p, 'w').write(src)
        r = subprocess.run([build.CLANG, '-std=c++11', '-fsyntax-only', '-Xclang', '-fdump-record-layouts',
                            '-I', build.SRC, '-I', build.GEN, p], stdout=subprocess.PIPE, stderr=subprocess.PIPE,
                           text=True)
        if r.returncode != 0:
            raise RuntimeError('reflection TU failed: ' + r.stderr[-3000:])
        open(out + '.tmp', 'w').write(r.stdout)
        os.replace(out + '.tmp', out)
    return open(out).read()


_LINE = re.compile(r'^\s*(\d+)?(?::\d+-\d+)?\s*\|( *)(.*)$')


def parse_layouts(txt):
    """-> {qualified class: [(depth, offset, text)]}"""
    recs = {}
    cur = None
    for ln in txt.split('\n'):
        if ln.startswith('*** Dumping AST Record Layout'):
            cur = None
            continue
        m = _LINE.match(ln)
        if not m:
            continue
        off, ind, rest = m.group(1), m.group(2), m.group(3)
        if rest.startswith('[sizeof='):
            if cur is not None:
                recs[cur]['sizeof'] = int(re.search(r'sizeof=(\d+)', rest).group(1))
            continue
        depth = len(ind) // 2
        if cur is None:
            mm = re.match(r'(?:struct|class|union) (.+)$', rest)
            if mm and depth == 0:
                cur = mm.group(1)
                recs[cur] = dict(lines=[], sizeof=None)
            continue
        if off is None:
            continue
        recs[cur]['lines'].append((depth, int(off), rest))
    return recs


def leaves_of(rec):
    """flatten one record's layout tree into leaves"""
    lines = rec['lines']
    out = []
    bases = []
    # stack of (depth, prefix) for nested struct members / bases
    i = 0
    n = len(lines)
    prefix_at = {0: ''}

    def skip_children(j, d):
        while j < n and lines[j][0] > d:
            j += 1
        return j
    while i < n:
        d, off, txt = lines[i]
        pre = prefix_at.get(d - 1, '') if d > 0 else ''
        if txt.startswith('(') and 'vtable pointer' in txt:
            i += 1
            continue
        mb = re.match(r'(?:struct|class) (Vector::BLF::\w+) \((?:primary )?(?:virtual )?base\)(?: \(empty\))?$', txt)
        if mb:
            if d == 1:
                bases.append(mb.group(1))
            prefix_at[d] = pre
            i += 1
            continue
        mn = re.match(r'(?:struct|class) (Vector::BLF::\w+) (\w+)$', txt)
        if mn:
            prefix_at[d] = pre + mn.group(2) + '.'
            out.append(Leaf(pre + mn.group(2), 'struct', mn.group(1), off))
            i += 1
            continue
        ma = re.match(r'struct std::array<(.+), (\d+)> (\w+)$', txt)
        if ma:
            et = ma.group(1)
            out.append(Leaf(pre + ma.group(3), 'array', txt, off, elem=et, count=int(ma.group(2)),
                            size=SCALARS.get(et, 0) * int(ma.group(2))))
            i = skip_children(i + 1, d)
            continue
        mv = re.match(r'class std::vector<(.+)> (\w+)$', txt)
        if mv:
            et = mv.group(1)
            kind = 'vector' if et in SCALARS else 'vecstruct'
            out.append(Leaf(pre + mv.group(2), kind, txt, off, elem=et, size=24))
            i = skip_children(i + 1, d)
            continue
        ms = re.match(r'class std::basic_string<(char|char16_t)> (\w+)$', txt)
        if ms:
            out.append(Leaf(pre + ms.group(2), 'string', 'std::string' if ms.group(1) == 'char' else 'std::u16string',
                            off, size=32, elem=ms.group(1)))
            i = skip_children(i + 1, d)
            continue
        me = re.match(r'enum (\S+) (\w+)$', txt)
        if me:
            out.append(Leaf(pre + me.group(2), 'int', 'enum ' + me.group(1), off))
            i += 1
            continue
        mt = re.match(r'(.+?) (\w+)$', txt)
        if mt and mt.group(1) in SCALARS:
            t = mt.group(1)
            out.append(Leaf(pre + mt.group(2), 'double' if t in ('double', 'float') else 'int', t, off,
                            size=SCALARS[t]))
            i += 1
            continue
        out.append(Leaf(pre + (mt.group(2) if mt else '?'), 'other', txt, off))
        i = skip_children(i + 1, d)
    # fix enum sizes from the next offset
    return out, bases


def reader_pairs(cls):
    """container -> length expression, from T::read (and nested member reads)"""
    p = os.path.join(build.BLF, cls + '.cpp')
    if not os.path.exists(p):
        return {}
    txt = open(p).read()
    m = re.search(r'::read\(AbstractFile & is\)\s*\{(.*?)\n\}', txt, re.S)
    if not m:
        return {}
    out = {}
    for cont, ex in re.findall(r'([\w.]+)\.resize\((.*?)\);', m.group(1)):
        out[cont] = ex.strip()
    return out


def header_base(cls, recs):
    """name of the header base class: ObjectHeader / ObjectHeader2 / VarObjectHeader / ObjectHeaderBase / None"""
    q = 'Vector::BLF::' + cls
    seen = 0
    while q in recs and seen < 10:
        seen += 1
        _, bases = leaves_of(recs[q])
        nxt = None
        for b in bases:
            s = b.split('::')[-1]
            if s in ('ObjectHeader', 'ObjectHeader2', 'VarObjectHeader', 'ObjectHeaderBase'):
                return s
            if nxt is None:
                nxt = b
        if nxt is None:
            return None
        q = nxt
    return None


_cache = {}


def reflect():
    """-> dict(classes={name: dict(leaves=[Leaf], header=..., sizeof=..., pairs={...}, codes=[...])}, table=[...])"""
    if 'r' in _cache:
        return _cache['r']
    table = type_table()
    ot = object_types()
    classes = []
    for cls, nm, val in table:
        if cls not in classes:
            classes.append(cls)
    extra = ['FileStatistics', 'RestorePoints', 'RestorePoint', 'ObjectHeaderBase', 'ObjectHeader', 'ObjectHeader2',
             'VarObjectHeader']
    recs = parse_layouts(_layouts(classes + extra))
    info = {}
    for cls in classes + extra:
        q = 'Vector::BLF::' + cls
        if q not in recs:
            continue
        lv, bases = leaves_of(recs[q])
        info[cls] = dict(leaves=lv, header=header_base(cls, recs) if cls not in extra else None,
                         sizeof=recs[q]['sizeof'], pairs=reader_pairs(cls), bases=bases,
                         codes=[(nm, val) for c, nm, val in table if c == cls])
        # nested member structs contribute their own reader pairs under the member prefix
        for lf in lv:
            if lf.kind == 'struct':
                sub = reader_pairs(lf.ctype.split('::')[-1])
                for k, v in sub.items():
                    info[cls]['pairs'][lf.path + '.' + k] = lf.path + '.' + v if re.fullmatch(r'\w+', v) else v
        # and bases (e.g. LinDatabyteTimestampEvent)
    r = dict(classes=info, table=table, object_types=ot)
    _cache['r'] = r
    return r


if __name__ == '__main__':
    r = reflect()
    print(len(r['classes']), 'classes;', len(r['table']), 'codes')
    for c in ('AppText', 'SerialEvent', 'LinMessage2', 'RestorePoints', 'GlobalMarker', 'CanFdMessage64'):
        i = r['classes'][c]
        print(c, i['header'], i['sizeof'], i['pairs'], i['codes'])
        for lf in i['leaves']:
            print('   ', lf.off, lf.kind, lf.path, lf.ctype[:40], lf.elem, lf.count)
    others = [(c, lf.path, lf.ctype) for c, i in r['classes'].items() for lf in i['leaves'] if lf.kind == 'other']
    print('unclassified:', others)
