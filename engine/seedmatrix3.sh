#!/bin/sh
# final matrix: every filed seed (both rounds) against its own property's check and the related ones
cd /verif
sh engine/seedmatrix2.sh
t() { n=$1; shift; [ -f seeded/$n/patch.diff ] || return; echo "== $n"; python3-vt engine/seedtest.py seeded/$n/patch.diff "$@" 2>&1 | tee seeded/$n/checks.txt; }
t R2-C01-m1 C01 C04
t R2-C01-m2 C01 C03
t R2-C03-m1 C03 C01
t R2-C03-m2 C03 C01
t R2-C04-m1 C04 C06
t R2-C04-m2 C04
t R2-C06-m1 C06
t R2-C06-m2 C06 C10
t R2-C08-m1 C08
t R2-C08-m2 C08
t R2-C10-m1 C10
t R2-C10-m2 C10
t R2-C11-m1 C11
t R2-C11-m2 C11
t R2-C13-m1 C13
t R2-C13-m2 C13 C08
t R2-C14-m1 C14 C11
t R2-C14-m2 C14 C03
t R2-C15-m1 C15
t R2-C15-m2 C15
