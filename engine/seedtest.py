"""Run checks against a seeded change: apply patch to /repo, run the listed checks, restore.
usage: seedtest.py <patch.diff> <ID> [<ID> ...]      (prints one line per check)"""
import os
import subprocess
import sys
import time

VERIF = os.path.dirname(os.path.dirname(os.path.abspath(__file__)))


def main():
    patch = os.path.abspath(sys.argv[1])
    ids = sys.argv[2:]
    st = subprocess.run(['git', '-C', '/repo', 'status', '--porcelain', '--', 'src', 'CMakeLists.txt', 'cmake'], stdout=subprocess.PIPE, text=True).stdout
    if st.strip():
        print('refusing: /repo has local changes:\n' + st)
        return 2
    r = subprocess.run(['git', '-C', '/repo', 'apply', patch], stdout=subprocess.PIPE, stderr=subprocess.STDOUT, text=True)
    if r.returncode != 0:
        print('patch does not apply:', r.stdout)
        return 2
    res = {}
    try:
        for pid in ids:
            t = time.time()
            p = subprocess.run([os.path.join(VERIF, 'check'), pid], stdout=subprocess.PIPE, stderr=subprocess.STDOUT, text=True,
                               cwd=VERIF, env=dict(os.environ, VP_OUT=os.path.join(VERIF, 'out', 'seedtest')))
            out = p.stdout
            nviol = out.count('VIOLATION property=')
            nerr = out.count('CHECK-ERROR')
            first = ''
            for ln in out.split('\n'):
                if ln.startswith('  ') and not first and 'confirmed' not in ln:
                    first = ln.strip()
            res[pid] = (p.returncode, nviol, nerr, first)
            print('%s rc=%d violations=%d check-errors=%d %.0fs  %s' % (pid, p.returncode, nviol, nerr, time.time() - t, first[:160]))
            sys.stdout.flush()
    finally:
        subprocess.run(['git', '-C', '/repo', 'checkout', '--', 'src'])
        subprocess.run(['git', '-C', VERIF, 'checkout', '--', 'evidence'])
    return 0


if __name__ == '__main__':
    sys.exit(main())
