"""Independent BLF walker (struct + zlib only; tooling, shares no code with the library).
Extracts object images from the reference logs and derives the set of padding types."""
import glob
import os
import struct
import zlib

import build

UT = os.path.join(build.BLF, 'tests', 'unittests')


def ref_logs():
    return sorted(glob.glob(os.path.join(UT, 'events_from_binlog', '*.blf')) +
                  glob.glob(os.path.join(UT, 'events_from_converter', '*.blf')))


def containers(data):
    """-> (stats-bytes, [(offset, method, uncompressed_size, stored-bytes, objectSize)])"""
    if data[:4] != b'LOGG':
        raise ValueError('no LOGG signature')
    ssize = struct.unpack_from('<I', data, 4)[0]
    pos = ssize
    out = []
    while pos + 32 <= len(data):
        if data[pos:pos + 4] != b'LOBJ':
            break
        hs, hv, osz, ot = struct.unpack_from('<HHII', data, pos + 4)
        if ot != 10:
            break
        method, r1, r2, usz, r3 = struct.unpack_from('<HHIII', data, pos + 16)
        stored = data[pos + 32:pos + osz]
        out.append((pos, method, usz, stored, osz))
        pos += osz + osz % 4
    return data[:ssize], out


def inflate(method, usz, stored):
    if method == 0:
        return stored
    if method == 2:
        return zlib.decompress(stored)
    raise ValueError('method %d' % method)


def uncompressed(path):
    data = open(path, 'rb').read()
    st, cs = containers(data)
    return st, b''.join(inflate(m, u, s) for _, m, u, s, _ in cs)


def objects(stream):
    """-> [(start, objectType, objectSize, gap_to_next)] walking by signature search"""
    out = []
    pos = stream.find(b'LOBJ')
    while pos >= 0 and pos + 16 <= len(stream):
        hs, hv, osz, ot = struct.unpack_from('<HHII', stream, pos + 4)
        nxt = stream.find(b'LOBJ', pos + max(osz, 16))
        end = nxt if nxt >= 0 else len(stream)
        out.append((pos, ot, osz, end - pos - osz))
        pos = nxt
    return out


_cache = {}


def survey():
    """-> dict(images=[(file, type, bytes-with-gap)], padding_types=set(type codes), never_pad=set())"""
    if 's' in _cache:
        return _cache['s']
    images = []
    pad = {}
    nopad = {}
    for p in ref_logs():
        try:
            st, u = uncompressed(p)
        except Exception:
            continue
        for start, ot, osz, gap in objects(u):
            img = u[start:start + osz + max(gap, 0)]
            images.append((os.path.basename(p), ot, osz, img))
            if osz % 4 != 0:
                if gap == osz % 4:
                    pad[ot] = pad.get(ot, 0) + 1
                elif gap == 0:
                    nopad[ot] = nopad.get(ot, 0) + 1
    r = dict(images=images, padding_types=set(pad), nopad_types=set(nopad) - set(pad))
    _cache['s'] = r
    return r


if __name__ == '__main__':
    s = survey()
    print(len(ref_logs()), 'logs;', len(s['images']), 'object images;', len({t for _, t, _, _ in s['images']}), 'types')
    print('padding types', sorted(s['padding_types']))
    print('observed unpadded with size%4!=0', sorted(s['nopad_types']))
