"""Harness runner: compile a harness TU, link with the repo modules, run entries
symbolically, apply judges, return plain-dict results (picklable across workers)."""
import json
import multiprocessing as mp
import os
import sys
import time
import pickle
import traceback

import build
import irparse
import symex
import expr as X


def run_entry(text, entry, judge=None, opts=None, extra_modules=(), guide=None):
    """-> result dict; with opts['twin_heap_shift'] the harness is executed a second time with every heap object at a
    different address and the exported bytes of corresponding paths are compared: output that differs depends on
    addresses (allocator state), not on the API-visible values"""
    opts = opts or {}
    shift = opts.get('twin_heap_shift')
    if not shift:
        return _run_entry(text, entry, judge, opts, extra_modules, guide)
    tags = tuple(opts.get('twin_tags', ('bytes1',)))

    def keyed(ex_):
        # paths are matched by their path condition (the enumeration order of feasible values may differ between runs)
        out = {}
        for r in ex_.results:
            if r.status == 'ok':
                key = tuple(sorted(X.digest(c) for c in r.state.pc))
                out[key] = ([(tag, X.cells_digest(cells)) for tag, cells in r.outs if tag in tags], r)
        return out
    r1 = _run_entry(text, entry, judge, opts, extra_modules, guide)
    k1 = keyed(r1['_ex'])
    o2 = dict(opts, heap_shift=shift)
    o2.pop('twin_heap_shift')
    r2 = _run_entry(text, entry, None, o2, extra_modules, guide)
    k2 = keyed(r2['_ex'])
    ex = r1['_ex']
    common = [k for k in k1 if k in k2]
    r1['twin_paths'] = len(common)
    if r1['status'] == 'done' and r2['status'] == 'done':
        bad = None
        for k in common:
            if k1[k][0] != k2[k][0]:
                bad = k
                break
        if bad is not None:
            st = k1[bad][1].state
            a, b = k1[bad][0], k2[bad][0]
            v = symex.Violation('address_dependent', 'the emitted bytes differ when the same object lives at other heap addresses '
                                '(tags %s): the output depends on addresses / allocator state' % ', '.join(t_ for (t_, d), (t2, d2) in zip(a, b) if d != d2),
                                ex.model_for(st), list(st.inputs), 'twin run')
            ex.violations.append(v)
            r1['violations'].append(v.to_json())
            r1['obligations_failed'] = r1.get('obligations_failed', 0) + 1
        else:
            r1['obligations_normalised'] = r1.get('obligations_normalised', 0) + len(common)
    r1['wall_s'] = round(r1['wall_s'] + r2['wall_s'], 3)
    r1['steps'] += r2['steps']
    return r1


def _run_entry(text, entry, judge=None, opts=None, extra_modules=(), guide=None):
    opts = opts or {}
    t0 = time.time()
    X.reset()
    hm = build.harness_module(text, tuple(opts.get('cflags', ())))
    mods = [hm] + list(extra_modules) + build.repo_modules(exclude=opts.get('exclude', ()))
    prog = irparse.Program(mods)
    ex = symex.Executor(prog, max_steps=opts.get('max_steps', 3000000), max_paths=opts.get('max_paths', 100000),
                        enum_limit=opts.get('enum_limit', 70), timeout_ms=opts.get('timeout_ms', 120000),
                        verbose=opts.get('verbose', False))
    if judge is not None:
        ex.on_path_end = judge
    for k, v in opts.get('hooks', {}).items():
        ex.hooks[k] = v
    if guide is not None:
        ex.guide = guide
    if opts.get('tape') is not None:
        ex.tape = opts['tape']
    ex.solver.cross_budget = opts.get('crosscheck', 3)
    ex.max_wall = opts.get('max_wall', 0)
    if opts.get('max_rss_mb'):
        ex.max_rss_mb = opts['max_rss_mb']
    ex.limit_is_hang = opts.get('limit_is_hang', False)
    ex.preempt_bound = opts.get('preempt_bound', 0)
    ex.preempt_range = opts.get('preempt_range')
    ex.preempt_in_cs = opts.get('preempt_in_cs', False)
    ex.race_detect = opts.get('race_detect', False)
    ex.child_first = opts.get('child_first', False)
    ex.heap_shift = opts.get('heap_shift', 0)
    if opts.get('concolic_tape') is not None:
        ex.concolic_tape = opts['concolic_tape']
    if opts.get('alloc_policy') is not None:
        ex.alloc_policy = tuple(opts['alloc_policy'])
    status = 'done'
    err = ''
    try:
        ex.run('@' + entry)
    except symex.Inconclusive as e:
        status = 'inconclusive'
        err = str(e)
    except Exception as e:
        status = 'error'
        err = traceback.format_exc()[-3000:]
    from collections import Counter
    pstat = Counter(r.status for r in ex.results)
    bad_paths = [(r.status, r.detail) for r in ex.results if r.status in ('limit', 'unsupported', 'enum_limit')
                 and not (r.status == 'limit' and ex.limit_is_hang)]
    if bad_paths and status == 'done':
        status = 'inconclusive'
        err = '; '.join('%s: %s' % b for b in bad_paths[:3])
    res = dict(entry=entry, status=status, error=err, paths=len(ex.results), path_status=dict(pstat),
               violations=[v.to_json() for v in ex.violations],
               obligations_solver=ex.obl_solver, obligations_normalised=ex.obl_concrete, obligations_failed=ex.obl_failed,
               crosschecked=ex.solver.cross_done, cross_disagree=ex.solver.cross_disagree,
               queries=ex.solver.queries, solver_s=round(ex.solver.time, 3), max_query_s=round(ex.solver.maxq, 3),
               wall_s=round(time.time() - t0, 3), reached=dict(ex.reached), forks=ex.forks,
               steps=sum(r.steps for r in ex.results), funcs=sorted(ex.funcs_run),
               inputs=max([len(r.inputs) for r in ex.results] or [0]),
               sample=_sample(ex), notes=_notes(ex), out_digests=_digests(ex, opts.get('digest_tags', ())))
    res['_ex'] = ex
    return res


def _digests(ex, tags):
    if not tags:
        return []
    out = []
    for r in ex.results[:5000]:
        if r.status == 'ok':
            d = {}
            for tag, cells in r.outs:
                if tag in tags:
                    d[tag] = X.cells_digest(cells)
            sched = getattr(r.state, 'sched_log', [])
            out.append((d, list(sched)))
    return out


def _notes(ex):
    out = []
    for r in ex.results[:50]:
        if r.status == 'ok':
            out.append([(k, v) for k, v in [(x[0], x[1]) for x in r.notes if len(x) == 2] if isinstance(v, int)][:60])
    return out


def _sample(ex):
    for r in ex.results:
        if r.status == 'ok' and r.inputs:
            st = r.state
            m = st.model
            if m is None:
                try:
                    m = ex.model_for(st)
                except Exception:
                    m = None
            return dict(symbolic_inputs=[n for n, w, k in r.inputs][:24],
                        witness={n: (m or {}).get(n, 0) for n, w, k in r.inputs[:24]},
                        path_constraints=len(st.pc), steps=r.steps)
    return None


def strip(res):
    res = dict(res)
    res.pop('_ex', None)
    return res


# ---------------------------------------------------------------- parallel map with fork
_TASK = None


def _call(i):
    try:
        return _TASK[0](*_TASK[1][i])
    except Exception:
        return dict(status='error', error=traceback.format_exc()[-3000:], task=repr(_TASK[1][i])[:200])


def pmap(fn, arglist, jobs=None):
    """run fn(*args) for each args, one forked process per task (parsed repo modules are inherited copy-on-write).
    A worker that dies (out of memory, crash inside a native library) yields an error result for its task instead of
    hanging the pool."""
    global _TASK
    jobs = jobs or min(16, os.cpu_count() or 4)
    build.repo_modules()
    if jobs <= 1 or len(arglist) <= 1:
        return [fn(*a) for a in arglist]
    _TASK = (fn, arglist)
    results = [None] * len(arglist)
    running = {}                       # pid -> (index, read fd)
    started = {}
    nxt = 0
    sys.stdout.flush()
    sys.stderr.flush()

    import select
    while nxt < len(arglist) or running:
        while nxt < len(arglist) and len(running) < jobs:
            rfd, wfd = os.pipe()
            pid = os.fork()
            if pid == 0:
                code = 0
                try:
                    os.close(rfd)
                    for _, (_, ofd) in running.items():
                        try:
                            os.close(ofd)
                        except OSError:
                            pass
                    data = pickle.dumps(_call(nxt), protocol=pickle.HIGHEST_PROTOCOL)
                    off = 0
                    while off < len(data):
                        off += os.write(wfd, data[off:off + (1 << 20)])
                    os.close(wfd)
                except BaseException:
                    code = 3
                    try:
                        traceback.print_exc()
                    except Exception:
                        pass
                finally:
                    sys.stdout.flush()
                    sys.stderr.flush()
                    os._exit(code)
            os.close(wfd)
            running[pid] = (nxt, rfd)
            started[pid] = time.time()
            nxt += 1
        # drain pipes of children that have produced output (a result larger than the pipe buffer would block the child)
        # hard limit per worker: the budgets inside the executor are checked between IR instructions; a worker stuck inside
        # one model call (or in a native library) is killed here and its harness reported as an error, never waited for
        now = time.time()
        for pid in [p for p, t0 in started.items() if p in running and now - t0 > HARD_TASK_S]:
            try:
                os.kill(pid, 9)
            except OSError:
                pass
        fds = {rfd: pid for pid, (i, rfd) in running.items()}
        ready, _, _ = select.select(list(fds), [], [], 0.5)
        for rfd in ready:
            pid = fds[rfd]
            i = running[pid][0]
            buf = _PARTIAL.setdefault(pid, [])
            b = os.read(rfd, 1 << 20)
            if b:
                buf.append(b)
                continue
            # EOF: the child closed its end (finished or died)
            _, status = os.waitpid(pid, 0)
            running.pop(pid)
            os.close(rfd)
            data = b''.join(_PARTIAL.pop(pid, []))
            try:
                results[i] = pickle.loads(data)
            except Exception:
                how = 'killed by signal %d' % os.WTERMSIG(status) if os.WIFSIGNALED(status) else 'exit status %d' % os.WEXITSTATUS(status)
                results[i] = dict(status='error', error='worker process died (%s; out of memory, or killed at the hard limit of %d s per harness) before reporting a result' % (how, HARD_TASK_S),
                                  task=repr(arglist[i])[:200])
    return results


_PARTIAL = {}
HARD_TASK_S = int(os.environ.get('VERIF_TASK_HARD_S', '1800'))
