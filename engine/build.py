"""Build pipeline: /repo working tree -> LLVM IR -> parsed modules (content-hash cache),
harness compilation, native (sanitised) builds for replay."""
import glob
import hashlib
import os
import subprocess
import sys
import time
from concurrent.futures import ThreadPoolExecutor

import irparse

VERIF = os.path.dirname(os.path.dirname(os.path.abspath(__file__)))
REPO = os.environ.get('VP_REPO', '/repo')
OUT = os.environ.get('VP_OUT', os.path.join(VERIF, 'out'))
SRC = os.path.join(REPO, 'src')
BLF = os.path.join(SRC, 'Vector', 'BLF')
SUPPORT = os.path.join(VERIF, 'support')
GEN = os.path.join(OUT, 'gen')
CACHE = os.path.join(OUT, 'cache')
GUARD = 'TECHNICA_ENGINEERING_VECTOR_BLF_VERIF'

CLANG = 'clang++-14'
IRFLAGS = ['-std=c++11', '-O1', '-fno-vectorize', '-fno-slp-vectorize', '-fno-unroll-loops', '-fno-access-control',
           '-S', '-emit-llvm', '-D' + GUARD, '-Wno-everything']
NATFLAGS = ['-std=c++11', '-O1', '-g', '-fno-access-control', '-fno-omit-frame-pointer', '-D' + GUARD,
            '-Wno-everything']
SAN = ['-fsanitize=address,undefined', '-fno-sanitize-recover=undefined']
TSAN = ['-fsanitize=thread']       # replay of data-race counterexamples


def sanflags(san):
    if san == 'tsan':
        return TSAN
    if san == 'stackpat':       # automatic variables pre-filled with a pattern / with zero: two builds whose outputs must agree
        return SAN + ['-ftrivial-auto-var-init=pattern']
    if san == 'stackzero':
        return SAN + ['-ftrivial-auto-var-init=zero', '-enable-trivial-auto-var-init-zero-knowing-it-will-be-removed-from-clang']
    return SAN if san else []


def sh(cmd, **kw):
    r = subprocess.run(cmd, stdout=subprocess.PIPE, stderr=subprocess.STDOUT, text=True, **kw)
    return r.returncode, r.stdout


def ensure_gen():
    d = os.path.join(GEN, 'Vector', 'BLF')
    os.makedirs(d, exist_ok=True)
    files = {
        os.path.join(d, 'config.h'): '#pragma once\n',
        os.path.join(d, 'vector_blf_export.h'):
            '#pragma once\n#define VECTOR_BLF_EXPORT\n#define VECTOR_BLF_NO_EXPORT\n#define VECTOR_BLF_DEPRECATED\n',
        os.path.join(GEN, 'prelude.h'):
            '// instantiate libstdc++ templates in the module instead of importing them from libstdc++.so\n'
            '#include <bits/c++config.h>\n#undef _GLIBCXX_EXTERN_TEMPLATE\n#define _GLIBCXX_EXTERN_TEMPLATE 0\n',
    }
    # config.h: take the repo template (it has no substitutions today; keep whatever it contains)
    tmpl = os.path.join(BLF, 'config.h.in')
    if os.path.exists(tmpl):
        files[os.path.join(d, 'config.h')] = open(tmpl).read()
    for p, c in files.items():
        if not os.path.exists(p) or open(p).read() != c:
            with open(p, 'w') as f:
                f.write(c)


_hdr_digest = None


def header_digest():
    global _hdr_digest
    if _hdr_digest is None:
        h = hashlib.sha256()
        for p in sorted(glob.glob(os.path.join(BLF, '*.h')) + glob.glob(os.path.join(SUPPORT, '*.h')) +
                        glob.glob(os.path.join(SUPPORT, 'stubs', '*'))):
            h.update(p.encode())
            h.update(open(p, 'rb').read())
        _hdr_digest = h.hexdigest()
    return _hdr_digest


def incflags():
    return ['-I', os.path.join(SUPPORT, 'stubs'), '-I', SRC, '-I', GEN, '-I', SUPPORT, '-include',
            os.path.join(GEN, 'prelude.h')]


def repo_sources():
    return sorted(p for p in glob.glob(os.path.join(BLF, '*.cpp')))


def source_hash():
    h = hashlib.sha256()
    h.update(header_digest().encode())
    for p in repo_sources():
        h.update(open(p, 'rb').read())
    return h.hexdigest()[:16]


def compile_ir(src_path, src_text=None, extra=()):
    """-> path of .ll (cached by content)"""
    ensure_gen()
    if src_text is None:
        src_text = open(src_path).read()
    key = hashlib.sha256(('\0'.join(IRFLAGS + list(extra)) + header_digest() + src_text).encode()).hexdigest()[:24]
    d = os.path.join(CACHE, 'ir')
    os.makedirs(d, exist_ok=True)
    out = os.path.join(d, key + '.ll')
    if os.path.exists(out):
        return out
    tmp_src = None
    if src_path is None or not os.path.exists(src_path) or open(src_path).read() != src_text:
        tmp_src = os.path.join(d, key + '.%d.cpp' % os.getpid())      # per process: identical harness texts are compiled in parallel
        with open(tmp_src, 'w') as f:
            f.write(src_text)
        src_path = tmp_src
    tmp = out + '.%d.tmp' % os.getpid()
    rc, o = sh([CLANG] + IRFLAGS + list(extra) + incflags() + [src_path, '-o', tmp])
    if rc != 0:
        raise RuntimeError('clang failed for %s:\n%s' % (src_path, o[-4000:]))
    os.replace(tmp, out)
    if tmp_src is not None:
        try:
            os.unlink(tmp_src)
        except OSError:
            pass
    return out


def repo_ir(jobs=16):
    """compile every repo TU to IR -> {basename: ll path}"""
    srcs = repo_sources()
    with ThreadPoolExecutor(jobs) as tp:
        lls = list(tp.map(lambda p: compile_ir(p), srcs))
    return {os.path.basename(p)[:-4]: ll for p, ll in zip(srcs, lls)}


_repo_mods = None


def repo_modules(only=None, exclude=()):
    global _repo_mods
    if _repo_mods is None:
        irs = repo_ir()
        pd = os.path.join(CACHE, 'pm')
        _repo_mods = {n: irparse.load_module_cached(ll, pd) for n, ll in irs.items()}
    return [m for n, m in _repo_mods.items() if (only is None or n in only) and n not in exclude]


def harness_module(text, extra=()):
    ll = compile_ir(None, text, extra)
    return irparse.load_module_cached(ll, os.path.join(CACHE, 'pm'))


def support_module(name, extra=()):
    p = os.path.join(SUPPORT, name)
    ll = compile_ir(p, None, extra)
    return irparse.load_module_cached(ll, os.path.join(CACHE, 'pm'))


# ------------------------------------------------------------------ native builds (replay / validation)
def native_lib(san=True, jobs=16):
    """static library of the repo sources built from the working tree -> path"""
    ensure_gen()
    flags = NATFLAGS + sanflags(san)
    d = os.path.join(CACHE, 'obj')
    os.makedirs(d, exist_ok=True)

    def one(p):
        txt = open(p).read()
        key = hashlib.sha256(('\0'.join(flags) + header_digest() + txt).encode()).hexdigest()[:24]
        o = os.path.join(d, key + '.o')
        if not os.path.exists(o):
            tmp = o + '.%d.tmp' % os.getpid()
            rc, out = sh([CLANG] + flags + ['-I', SRC, '-I', GEN, '-I', SUPPORT, '-c', p, '-o', tmp])
            if rc != 0:
                raise RuntimeError('native compile failed: %s\n%s' % (p, out[-3000:]))
            os.replace(tmp, o)
        return o
    with ThreadPoolExecutor(jobs) as tp:
        objs = list(tp.map(one, repo_sources()))
    key = hashlib.sha256('\0'.join(objs).encode()).hexdigest()[:24]
    lib = os.path.join(d, 'libblf_%s.a' % key)
    if not os.path.exists(lib):
        tmp = lib + '.%d.tmp' % os.getpid()
        rc, out = sh(['ar', 'rcs', tmp] + objs)
        if rc != 0:
            raise RuntimeError(out)
        os.replace(tmp, lib)
    return lib


def native_harness(text, san=True, extra_srcs=(), defs=()):
    """compile harness text + vp_native.cpp against the native lib -> executable path"""
    lib = native_lib(san)
    flags = NATFLAGS + sanflags(san) + ['-DVP_NATIVE_FS'] + list(defs)
    key = hashlib.sha256(('\0'.join(flags) + header_digest() + text + lib +
                          open(os.path.join(SUPPORT, 'vp_native.cpp')).read()).encode()).hexdigest()[:24]
    d = os.path.join(CACHE, 'nat')
    os.makedirs(d, exist_ok=True)
    exe = os.path.join(d, key)
    if os.path.exists(exe):
        return exe
    src = os.path.join(d, key + '.cpp')
    with open(src, 'w') as f:
        f.write(text)
    tmp = exe + '.%d.tmp' % os.getpid()
    rc, out = sh([CLANG] + flags + ['-I', SRC, '-I', GEN, '-I', SUPPORT, src, os.path.join(SUPPORT, 'vp_native.cpp')] +
                 list(extra_srcs) + [lib, '-lz', '-lpthread', '-ldl', '-o', tmp])
    if rc != 0:
        raise RuntimeError('native harness link failed:\n' + out[-4000:])
    os.replace(tmp, exe)
    return exe


if __name__ == '__main__':
    t = time.time()
    irs = repo_ir()
    print('compiled %d TUs in %.1fs' % (len(irs), time.time() - t))
    t = time.time()
    ms = repo_modules()
    print('parsed %d modules in %.1fs' % (len(ms), time.time() - t))
