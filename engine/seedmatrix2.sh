#!/bin/sh
# final matrix: every filed seed against its own property's check and the related ones
cd /verif
t() { n=$1; shift; [ -f seeded/$n/patch.diff ] || return; echo "== $n"; python3-vt engine/seedtest.py seeded/$n/patch.diff "$@" 2>&1 | tee seeded/$n/checks.txt; }
t C01-m1 C01 C03
t C01-m2 C01 C06 C04
t C02-m1 C02 C01
t C02-m2 C02 C01
t C03-m1 C03 C01
t C03-m2 C03
t C04-m1 C04 C15 C01
t C04-m2 C04 C15 C01
t C05-m1 C05
t C05-m2 C05
t C06-m1 C06 C13
t C06-m2 C06 C13
t C07-m1 C07 C14
t C07-m2 C07 C15
t C08-m1 C08
t C08-m2 C08
t C09-m1 C09
t C09-m2 C09 C10
t C10-m1 C10
t C10-m2 C10 C06
t C11-m1 C11
t C11-m2 C11
t C12-m1 C12
t C12-m2 C12
t C13-m1 C13
t C13-m2 C13
t C14-m1 C14 C17
t C14-m2 C14 C07
t C15-m1 C15
t C15-m2 C15
t C16-m1 C16 C06
t C16-m2 C16
t C17-m1 C17
t C17-m2 C17
