"""Generated codec-level harnesses (one TU per object class) and their judges.

h_rt      : populate -> write -> read -> write again   (C01-L1, C03, C14, C17 parts)
h_default : default-constructed object in never-written heap memory -> write -> read (C17, C14)
h_dec     : decode fully symbolic bytes (C10 memory safety of every decoder)
"""
import re

from expr import E
import expr as X
import judge as J
import reflect
from symex import Violation

HEADER_DERIVED = {'signature', 'headerSize', 'headerVersion', 'objectSize', 'objectType'}
# layout-version selectors: not stored in the file; the reader re-derives the version class from objectSize
# (checked against the reflection at generation time)
SELECTORS = {'LinMessage2': {'apiMajor'}, 'EthernetStatus': {'apiMajor'}}
# payload containers of a sub-object that only one variant of the type stores: compared when the writer
# persisted them or the reader produced data, not otherwise
VARIANT_CONTAINERS = {'SerialEvent': {'general.data', 'general.timeStamps'}}
CAP = 4096


def classes():
    r = reflect.reflect()
    out = []
    for cls, info in r['classes'].items():
        if info['header'] is None or cls in ('LogContainer',):
            continue
        if not info['codes']:
            continue
        out.append(cls)
    return out


def leaves(cls):
    info = reflect.reflect()['classes'][cls]
    return [lf for lf in info['leaves'] if lf.kind in ('int', 'double', 'array', 'vector', 'string')]


def length_fields(cls):
    """members the reader uses as container lengths (reader-side pairs)"""
    info = reflect.reflect()['classes'][cls]
    out = {}
    names = {lf.path for lf in info['leaves']}
    for cont, ex in info['pairs'].items():
        for nm in re.findall(r'[A-Za-z_][\w.]*', ex):
            cand = nm
            if cand in names:
                out[cand] = cont
            else:
                # nested reader: the expression is relative to the sub-object
                pre = cont.rsplit('.', 1)[0] + '.' if '.' in cont else ''
                if pre + cand in names:
                    out[pre + cand] = cont
    return out


def gen(cls, maxlen=8):
    info = reflect.reflect()['classes'][cls]
    lv = leaves(cls)
    codes = info['codes']
    hdr = info['header']
    L = []
    w = L.append
    w('#define VP_MAXLEN %d' % maxlen)
    w('#include <vp_harness.h>')
    w('#include <Vector/BLF/%s.h>' % cls)
    w('using namespace Vector::BLF;')
    w('typedef %s T;' % cls)
    w('static void fill(T & a) {')
    if len(codes) > 1:
        w('    static const uint32_t codes[] = {%s};' % ', '.join(str(v) for _, v in codes))
        w('    uint32_t k = vp_choose(%d, "objectType_choice");' % len(codes))
        w('    uint32_t c = codes[k]; memcpy(&a.objectType, &c, 4);')
    stale = set(length_fields(cls)) | {'headerSize', 'objectSize'}
    for lf in lv:
        if lf.path in ('signature', 'headerVersion', 'objectType'):
            continue
        w('    vp_fill(a.%s, "%s%s");' % (lf.path, 'stale:' if lf.path in stale else '', lf.path))
    w('}')
    w('static void expo(const T & a, const char * who) {')
    w('    char tag[96];')
    for lf in lv:
        w('    { const char * p = "%s"; char * t = tag; *t++ = who[0]; *t++ = \':\'; while (*p) *t++ = *p++; *t = 0; '
          'vp_exp(a.%s, tag); }' % (lf.path, lf.path))
    w('}')
    w('static unsigned char buf1[%d], buf2[%d], hb[256];' % (CAP, CAP))
    # ---- round trip
    w('extern "C" void h_rt() {')
    w('    T * ap = new T; T & a = *ap;')
    w('    fill(a);')
    w('    MemFile mf(buf1, sizeof buf1);')
    w('    a.write(mf);')
    w('    vp_note("overflow", mf.overflow); vp_note("p1", mf.p);')
    w('    vp_out(buf1, mf.p, "bytes1");')
    w('    { MemFile hm(hb, sizeof hb); a.%s::write(hm); vp_note("hdr_emitted", hm.p); }' % hdr)
    w('    vp_note("calc_size", a.calculateObjectSize()); vp_note("calc_hdr", a.calculateHeaderSize());')
    w('    expo(a, "a");')
    w('    T b; vp_watch(&b, sizeof b, "b");')
    w('    b.read(mf);')
    w('    vp_note("g2", mf.g); vp_note("good2", mf.good());')
    w('    expo(b, "b");')
    w('    MemFile mf2(buf2, sizeof buf2);')
    w('    b.write(mf2);')
    w('    vp_note("p2", mf2.p); vp_out(buf2, mf2.p, "bytes2");')
    w('    // decoding does not depend on what the destination object held before: the same bytes once more into the used object')
    w('    { MemFile mf3(buf1, sizeof buf1, mf.p); b.read(mf3); vp_note("g3", mf3.g); }')
    w('    delete ap;')
    w('    vp_reach("h_rt:end");')
    w('}')
    # ---- default object
    w('extern "C" void h_default() {')
    w('    T * ap = new T; T & a = *ap;')
    w('    uint32_t ot; memcpy(&ot, &a.objectType, 4); vp_note("ctor_type", ot);')
    w('    expo(a, "c");                      /* member values exactly as constructed */')
    w('    MemFile mf(buf1, sizeof buf1);')
    w('    a.write(mf);')
    w('    vp_note("overflow", mf.overflow); vp_note("p1", mf.p);')
    w('    vp_out(buf1, mf.p, "bytes1");')
    w('    expo(a, "a");')
    w('    T b; vp_watch(&b, sizeof b, "b");')
    w('    b.read(mf);')
    w('    vp_note("g2", mf.g); vp_note("good2", mf.good());')
    w('    expo(b, "b");')
    w('    delete ap;')
    w('    vp_reach("h_default:end");')
    w('}')
    # ---- one container at a boundary length (narrowing of length fields, 8/16-bit wrap-around)
    conts = [lf for lf in lv if lf.kind in ('vector', 'string')]
    if conts:
        w('#ifdef VP_BIG_IDX')
        w('static unsigned char bbuf1[VP_BIG_CAP], bbuf2[VP_BIG_CAP];')
        w('static void fill_big(T & a) {')
        if len(codes) > 1:
            w('    static const uint32_t codes[] = {%s};' % ', '.join(str(v) for _, v in codes))
            w('    uint32_t k = vp_choose(%d, "objectType_choice");' % len(codes))
            w('    uint32_t c = codes[k]; memcpy(&a.objectType, &c, 4);')
        for lf in lv:
            if lf.path in ('signature', 'headerVersion', 'objectType'):
                continue
            if lf.kind in ('vector', 'string'):
                k = conts.index(lf)
                w('#if VP_BIG_IDX == %d' % k)
                w('    a.%s.resize(VP_BIG_LEN); vp_bytes(&a.%s[0], 4 * sizeof(a.%s[0]), "%s");' % (lf.path, lf.path, lf.path, lf.path))
                w('#endif')
            else:
                w('    vp_fill(a.%s, "%s%s");' % (lf.path, 'stale:' if lf.path in stale else '', lf.path))
        w('}')
        w('extern "C" void h_big() {')
        w('    T * ap = new T; T & a = *ap;')
        w('    fill_big(a);')
        w('    MemFile mf(bbuf1, sizeof bbuf1);')
        w('    a.write(mf);')
        w('    vp_note("overflow", mf.overflow); vp_note("p1", mf.p);')
        w('    vp_out(bbuf1, mf.p, "bytes1");')
        w('    { MemFile hm(hb, sizeof hb); a.%s::write(hm); vp_note("hdr_emitted", hm.p); }' % hdr)
        w('    expo(a, "a");')
        w('    T b; vp_watch(&b, sizeof b, "b");')
        w('    b.read(mf);')
        w('    vp_note("g2", mf.g); vp_note("good2", mf.good());')
        w('    expo(b, "b");')
        w('    delete ap;')
        w('    vp_reach("h_big:end");')
        w('}')
        w('#endif')
    # ---- sparse population: only the members named by VP_SPARSE_FILL are set, the rest stays as constructed
    w('#ifdef VP_SPARSE_FILL')
    w('extern "C" void h_sparse() {')
    w('    T * ap = new T; T & a = *ap;')
    w('    VP_SPARSE_FILL')
    w('    MemFile mf(buf1, sizeof buf1);')
    w('    a.write(mf);')
    w('    vp_note("overflow", mf.overflow); vp_note("p1", mf.p);')
    w('    vp_out(buf1, mf.p, "bytes1");')
    w('    delete ap;')
    w('    vp_reach("h_sparse:end");')
    w('}')
    w('#endif')
    # ---- hostile decode
    w('#include <stdexcept>')
    w('#include <Vector/BLF/Exceptions.h>')
    w('#ifndef VP_DEC_CUTS')
    w('#define VP_DEC_CUTS 3')
    w('#endif')
    w('#ifndef VP_DEC_EXTRA')
    w('#define VP_DEC_EXTRA 8')
    w('#endif')
    w('extern "C" void h_dec() {')
    w('    uint32_t base; { T t0; base = t0.calculateObjectSize(); }')
    w('    uint32_t cap = base + VP_DEC_EXTRA; if (cap > sizeof buf1) cap = sizeof buf1;')
    w('#ifdef VP_DEC_ALL')
    w('    uint32_t n = (uint32_t)vp_concrete(vp_choose(cap + 1, "stream_size"));')
    w('#else')
    w('    uint32_t n = cap - (uint32_t)vp_concrete(vp_choose(VP_DEC_CUTS, "stream_cut")) * 5;   /* full, -5, -10 */')
    w('#endif')
    w('    vp_bytes(buf1, cap, "in");')
    w('    buf1[0] = \'L\'; buf1[1] = \'O\'; buf1[2] = \'B\'; buf1[3] = \'J\';')
    w('    MemFile mf(buf1, cap, n);')
    w('    T t;')
    w('    int thrown = 0;')
    w('    try { t.read(mf); }')
    w('    catch (const Vector::BLF::Exception &) { thrown = 1; }')
    w('    catch (const std::bad_alloc &) { thrown = 2; }')
    w('    catch (const std::length_error &) { thrown = 3; }')
    w('    vp_note("thrown", thrown); vp_note("g", mf.g);')
    w('    VP_ASSERT(mf.g <= n);')
    w('    vp_reach("h_dec:end");')
    w('}')
    return '\n'.join(L) + '\n'


def big_lengths(cls):
    """[(container index, path, [boundary lengths])]: lengths just above 8/16 bits that the container's length field
    (reader-side pair) can still represent"""
    info = reflect.reflect()['classes'][cls]
    lv = leaves(cls)
    conts = [lf for lf in lv if lf.kind in ('vector', 'string')]
    lens = length_fields(cls)
    by_cont = {}
    for f, cont in lens.items():
        by_cont.setdefault(cont, []).append(f)
    width = {lf.path: (lf.size or 4) for lf in lv if lf.kind == 'int'}
    out = []
    for k, lf in enumerate(conts):
        fs = by_cont.get(lf.path, [])
        wbytes = min([width.get(f, 4) for f in fs] or [4])
        ls = []
        if wbytes >= 2:
            ls.append(257)
        if wbytes >= 4:
            ls.append(65537)
        if ls:
            out.append((k, lf.path, ls))
    return out


def _viol(ex, st, kind, msg, model=None):
    ex.obl_failed += 1
    if st.flags.get('stale_seen'):
        # consequence of a reported dependence on a stale size/length member: labelled, so that it is told apart from
        # the same symptom on a path without such a dependence
        msg += ' [path steered by the stale member "%s"]' % st.flags['stale_seen']
    ex.violations.append(Violation(kind, msg, model if model is not None else ex.model_for(st), list(st.inputs),
                                   'judge'))


def _u(v):
    return v


def make_rt_judge(cls, padding_types, default_obj=False):
    """path-end judge for h_rt / h_default"""
    info = reflect.reflect()['classes'][cls]
    lv = leaves(cls)
    lens = length_fields(cls)
    derived = set(HEADER_DERIVED) | set(lens) | SELECTORS.get(cls, set())
    for sname in SELECTORS.get(cls, ()):
        assert any(lf.path == sname for lf in lv), 'selector %s.%s no longer exists' % (cls, sname)
    off_of = {lf.path: lf for lf in lv}
    pads = cls in padding_types

    def judge(ex, st, status):
        if status != 'ok':
            return
        b1 = J.out(st, 'bytes1')
        p1 = J.note(st, 'p1')
        g2 = J.note(st, 'g2')
        if J.note(st, 'overflow'):
            _viol(ex, st, 'harness', 'harness buffer too small for %s' % cls)
            return
        # ---- C14 / C17: no emitted byte may depend on never-written memory
        if J.has_garbage(b1):
            bad = [i for i, c in enumerate(b1) if J.has_garbage([c])]
            _viol(ex, st, 'uninit_output', '%s: emitted bytes %s depend on uninitialised memory' % (cls, bad[:12]))
        else:
            ex.obl_concrete += 1
        # ---- C17: a freshly constructed object has fully determined member values and its class's type code
        if default_obj:
            for lf in lv:
                ca = J.out(st, 'c:' + lf.path)
                if ca is not None and J.has_garbage(ca):
                    _viol(ex, st, 'uninit_member', '%s.%s of a default-constructed object is not initialised' % (
                        cls, lf.path))
            ct = J.note(st, 'ctor_type')
            codes = [v for _, v in info['codes']]
            if type(ct) is E or ct not in codes:
                _viol(ex, st, 'typecode', '%s: constructor sets objectType %s, format assigns %s' % (cls, ct, codes))
            else:
                ex.obl_concrete += 1
            tb = J.out(st, 'b:objectType')
            if tb is not None:
                ok, m = J.can_be(ex, st, X.ne(J.cells_value(tb), ct, 32))
                if ok:
                    _viol(ex, st, 'typecode', '%s: type code read back differs from the constructed one' % cls, m)
        # ---- C03 / C01: decoding into an object that was used before consumes the same bytes
        g3 = J.note(st, 'g3')
        if g3 is not None and g2 is not None and not default_obj:
            ok, m = J.can_be(ex, st, X.ne(st.simp(g3), st.simp(g2), 64))
            if ok:
                _viol(ex, st, 'framing', '%s: decoding the same bytes into an object that was used before consumes %s bytes, into a fresh object %s' % (
                    cls, X.evaluate(st.simp(g3), m or {}), X.evaluate(st.simp(g2), m or {})), m)
        # ---- C03 framing
        n1 = len(b1)
        if n1 < 16:
            _viol(ex, st, 'framing', '%s: fewer than 16 bytes emitted (%d)' % (cls, n1))
            return
        hs = J.cells_value(b1[4:6])
        osz = J.cells_value(b1[8:12])
        hdr_emitted = J.note(st, 'hdr_emitted')
        if hdr_emitted is not None:
            ok, m = J.can_be(ex, st, X.ne(hs, hdr_emitted, 16))
            if ok:
                _viol(ex, st, 'framing', '%s: headerSize field %s != header bytes emitted %s' % (
                    cls, X.evaluate(hs, m), hdr_emitted), m)
        # objectSize field == bytes emitted minus padding; padding = objectSize % 4 for padding types else 0
        if pads:
            exp_total = X.add(osz, X.urem(osz, 4, 32), 32)
        else:
            exp_total = osz
        ok, m = J.can_be(ex, st, X.ne(exp_total, n1, 32))
        if ok:
            _viol(ex, st, 'framing', '%s: objectSize field %s%s != %d bytes emitted' % (
                cls, X.evaluate(osz, m), ' (+ objectSize%4 padding)' if pads else '', n1), m)
        elif pads:
            # padding bytes are zero
            oszv = st.simp(osz)
            if type(oszv) is not E:
                for c in b1[oszv:]:
                    ok, m = J.can_be(ex, st, X.ne(J.cell_expr(c) if c is not None else 1, 0, 8))
                    if ok:
                        _viol(ex, st, 'framing', '%s: padding byte not zero' % cls, m)
                        break
        # decoding consumes exactly what was emitted
        good2 = J.note(st, 'good2')
        if type(g2) is E or type(good2) is E:
            g2 = st.simp(g2)
            good2 = st.simp(good2)
        ok, m = J.can_be(ex, st, X.lor(X.ne(g2, n1, 64), X.eq(good2, 0, good2.w if type(good2) is E else 64)))
        if ok:
            _viol(ex, st, 'framing', '%s: decoder consumed %s of %d emitted bytes (good=%s)' % (
                cls, X.evaluate(g2, m), n1, X.evaluate(good2, m)), m)
        # ---- C01 L1: member-wise round trip
        bvars = J.cells_vars(b1)
        wb = None
        for k, wv in st.watch.items():
            if wv[3] == 'b':
                wb = wv
        for lf in lv:
            ca = J.out(st, 'a:' + lf.path)
            cb = J.out(st, 'b:' + lf.path)
            if ca is None or cb is None:
                continue
            if lf.path in derived:
                continue
            if lf.kind in ('vector', 'string'):
                if lf.path in VARIANT_CONTAINERS.get(cls, ()) and not cb and not (J.cells_vars(ca) & bvars):
                    st.flags['inactive'] = st.flags.get('inactive', 0) + 1
                    continue
                if len(ca) != len(cb):
                    _viol(ex, st, 'roundtrip', '%s.%s: %d payload bytes written, %d read back' % (
                        cls, lf.path, len(ca), len(cb)))
                    continue
                d, m = J.differs(ex, st, ca, cb)
                if d:
                    _viol(ex, st, 'roundtrip', '%s.%s: payload differs after write/read' % (cls, lf.path), m)
                continue
            persisted = bool(J.cells_vars(ca) & bvars)
            touched = bool(st.flags.get('native'))      # native replay has no write tracking: compare every member
            if wb is not None and lf.off is not None:
                sz = len(ca)
                touched = any((wb[0] + lf.off + i) in wb[2] for i in range(sz)) if wb[0] == 0 else \
                    any((lf.off + i + wb[0]) in wb[2] for i in range(sz))
            if not persisted and not touched:
                st.flags['inactive'] = st.flags.get('inactive', 0) + 1
                continue
            d, m = J.differs(ex, st, ca, cb)
            if d:
                _viol(ex, st, 'roundtrip', '%s.%s: value differs after write/read (%s)' % (
                    cls, lf.path, 'persisted' if persisted else 'set by reader'), m)
        # length fields read back equal the container sizes
        for lf_name, cont in lens.items():
            cb = J.out(st, 'b:' + lf_name)
            cc = J.out(st, 'b:' + cont)
            if cb is None or cc is None:
                continue
        # ---- idempotence: encode(decode(encode(a))) == encode(a)
        b2 = J.out(st, 'bytes2')
        if b2 is not None:
            if len(b2) != n1:
                _viol(ex, st, 'idempotence', '%s: re-encoding the decoded object gives %d bytes instead of %d' % (
                    cls, len(b2), n1))
            else:
                d, m = J.differs(ex, st, b1, b2)
                if d:
                    _viol(ex, st, 'idempotence', '%s: re-encoding the decoded object changes bytes' % cls, m)
    return judge


def make_uninit_judge(cls):
    """only: no emitted byte may depend on never-written memory"""
    def judge(ex, st, status):
        if status != 'ok':
            return
        b1 = J.out(st, 'bytes1')
        if b1 is None:
            return
        if J.has_garbage(b1):
            bad = [i for i, c_ in enumerate(b1) if J.has_garbage([c_])]
            _viol(ex, st, 'uninit_output', '%s: emitted bytes %s depend on uninitialised memory' % (cls, bad[:12]))
        else:
            ex.obl_concrete += 1
    return judge


def selectors(cls):
    """members whose value steers control flow of write()/read() (they occur in some path condition of h_rt)"""
    import run
    res = run.run_entry(gen(cls, maxlen=1), 'h_rt', None, dict(max_wall=120))
    ex = res['_ex']
    names = set()
    for r in ex.results:
        for c_ in r.state.pc:
            for v in X.free_vars(c_):
                n = v.a[0].split('#')[0]
                if n.startswith('stale:'):
                    n = n[6:]
                n = n.split('[')[0]
                names.add(n)
    lv = {lf.path: lf for lf in leaves(cls)}
    return sorted(n for n in names if n in lv and lv[n].kind in ('int', 'double'))
