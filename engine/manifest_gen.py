"""Writes /verif/MANIFEST.json from the table below (kept next to the code so it stays in sync)."""
import json
import os

VERIF = os.path.dirname(os.path.dirname(os.path.abspath(__file__)))

ENGINE = 'llsym'
TECH = 'symbolic execution of the clang-14 LLVM IR of the real sources (own executor llsym) + z3 QF_BV verdict per path; ' \
       'counterexamples replayed natively (ASan+UBSan)'

CHECKS = {
    'C01': dict(cat='model_checking', ref='DESIGN.md §2 row C01',
                text='Codec round-trip lemma decided by z3 over all member values for every creatable class within the '
                     'payload-length bound; pipeline-level composition is by the lemmas of C15/C16/C04/C17.',
                note='bounded: container lengths <= 4 quick / <= 8 thorough; zlib and OS file trusted; engine models listed in evidence.trusted_base'),
    'C03': dict(cat='model_checking', ref='DESIGN.md §2 row C03',
                text='Framing obligations (headerSize, objectSize, padding, consumption, no stale-field dependence, no OOB '
                     'while encoding) decided per symbolic path by z3 for every creatable class.',
                note='bounded payload lengths; padding-type set taken from the reference logs'),
    'C14': dict(cat='model_checking', ref='DESIGN.md §2 row C14',
                text='Never-written memory is modelled as unconstrained symbols; no emitted byte may depend on one '
                     '(populated and default-constructed objects of every class).',
                note='bounded payload lengths; schedule-independence of container boundaries is argued via C15'),
}

NA = {
}

CHECKS.update({
    'C02': dict(cat='model_checking', ref='DESIGN.md §2 row C02',
                text='Each reference-log object image is decoded with ALL bytes after the base header symbolic at once, '
                     'constrained to the decode path (shape) of the original; z3 decides that re-encoding reproduces every byte.',
                note='quick: one image per type; thorough: all 512; padding bytes kept concrete'),
    'C04': dict(cat='model_checking', ref='DESIGN.md §2 row C04',
                text='Whole write sessions of the real File run symbolically (cooperative threads, stub fstream/zlib); the finished file is '
                     'walked by an independent decoder in the harness and compared with the objects\' encodings for all field values.',
                note='zlib by contract model; 3 quick / 10 thorough configurations; 4 objects; one schedule'),
    'C05': dict(cat='model_checking', ref='DESIGN.md §2 row C05',
                text='Header bytes after close() compared with an independent container walk and with the reader\'s running counters, '
                     'caller-supplied header fields symbolic.',
                note='as C04'),
    'C06': dict(cat='model_checking', ref='DESIGN.md §2 row C06',
                text='Circular-wait freedom decided by z3 on the real wait predicates from an arbitrary symbolic stream/queue state '
                     '(unbounded sizes), abort releases all waiters; whole sessions incl. early close run with deadlock detection.',
                note='monitor reduction (C11 premise); sessions on two base schedules (run-until-block, child-first), early-close and buffer==container sessions under every one-preemption schedule, no-lost-wake-up lemmas; read-session finding (chunk > buffer) recorded'),
    'C07': dict(cat='model_checking', ref='DESIGN.md §2 row C07',
                text='Complete write+read sessions executed symbolically under every schedule with at most one preemption at a mutex '
                     'release / thread start; on every schedule file bytes and delivered objects must match the schedule-free expectation.',
                note='2 objects; preemption bound 1 complete; deeper interleavings by the monitor reduction (C11, C15, C16)'),
    'C08': dict(cat='model_checking', ref='DESIGN.md §2 row C08',
                text='A file written inside the symbolic run is cut at EVERY offset (complete enumeration); the real read pipeline must '
                     'deliver exactly the objects of completely stored containers (independent walk), unmodified for all field values, then end.',
                note='4 objects; 2 quick / 6 thorough configurations; zlib by contract model'),
    'C09': dict(cat='model_checking', ref='DESIGN.md §2 row C09',
                text='Signature matcher executed on fully symbolic filler; unknown objects (symbolic unassigned code, arbitrary body) and filler '
                     'between objects, also across containers, read through the real pipeline; neighbours must come back identical.',
                note='filler <= 7/9 bytes (matcher), <= 3 bytes (file level); five unknown sizes'),
    'C10': dict(cat='model_checking', ref='DESIGN.md §2 row C10',
                text='Every decoder runs on symbolic bytes with bounds/lifetime-checked memory; the whole three-thread read '
                     'pipeline runs on a file with a symbolic object header and must terminate (deadlock and step-budget detection).',
                note='bounded stream sizes; allocation classes; 4 string-heavy decoders excluded from the per-decoder harness (stated); real zlib outside'),
    'C11': dict(cat='model_checking', ref='DESIGN.md §2 row C11',
                text='Same schedule exploration with an adversarial consumer (delete right after read()) on lifetime-checked memory and a '
                     'vector-clock happens-before race detector over every non-atomic access.',
                note='2 objects; preemption bound 1; races needing >= 2 preemptions outside; native confirmation by chaos-schedule stress replay under ASan'),
    'C12': dict(cat='model_checking', ref='DESIGN.md §2 row C12',
                text='llsym accounts every allocation of the real pipeline during symbolically executed sessions over files of N and 3N '
                     'objects (saturating scaled-down thresholds); the live-heap peak must not grow with N; growth is re-measured natively.',
                note='sizes N, 3N (6N thorough); thresholds scaled via private members; one cooperative schedule; extrapolation by induction argument'),
    'C13': dict(cat='model_checking', ref='DESIGN.md §2 row C13',
                text='All API call histories up to the bound are enumerated; each runs the real File with its workers on llsym\'s lifetime-checked '
                     'heap: leaks, double frees, use after free, unjoined threads and wrong is_open/good/eof are reported.',
                note='history length 4 quick / 6 thorough (12 in the property text is outside); files of 2 objects; one schedule per history'),
    'C15': dict(cat='model_checking', ref='DESIGN.md §2 row C15',
                text='Real UncompressedFile (with real libstdc++ list/shared_ptr/vector code) executed on bounded operation histories with '
                     'symbolic data bytes and completely enumerated chunkings; every byte and observer compared with a flat byte-queue model.',
                note='histories of length 3 quick / 4 thorough; containers 1..3 bytes; chunks <= 3 bytes; seek-back into dropped data outside'),
    'C16': dict(cat='model_checking', ref='DESIGN.md §2 row C16',
                text='Real ObjectQueue methods from an arbitrary (symbolic 32-bit) counter state against a reference model; blocking, eof, abort, '
                     'no-lost-wake-up obligations decided by z3 with the real wait predicates evaluated in probe mode.',
                note='sequences of 3 quick / 5 thorough operations; concurrency by monitor reduction (every method holds the mutex: C11)'),
    'C17': dict(cat='model_checking', ref='DESIGN.md §2 row C17',
                text='File::createObject executed for a symbolic 32-bit code (one path per switch arm, z3 feasibility), compared with the '
                     'File.h class/code table; every class default-constructed in symbolic-garbage memory.',
                note='class/code oracle = include comments of File.h + ObjectType enumerators'),
})


def main():
    checks = []
    for pid in sorted(CHECKS):
        c = CHECKS[pid]
        checks.append(dict(
            property_id=pid,
            quick_cmd='./check %s --tier quick' % pid,
            thorough_cmd='./check %s --tier thorough' % pid,
            evidence_file='evidence/%s.json' % pid,
            replay_cmd_template='./check %s --replay {path}' % pid,
            engine=ENGINE,
            level_claimed=dict(category=c['cat'], text=c['text'], design_ref=c['ref']),
            level_note=c['note'],
            technique=c.get('tech', TECH)))
    props = [json.loads(l)['id'] for l in open(os.path.join(VERIF, 'properties.jsonl')) if l.strip()]
    na = []
    for pid in props:
        if pid not in CHECKS:
            na.append(dict(property_id=pid, reason=NA.get(pid, 'check not built yet in this round (planned: see DESIGN.md); not claimed')))
    m = dict(
        version=1,
        setup_cmd='python3-vt engine/setup.py',
        hooks=dict(guard='TECHNICA_ENGINEERING_VECTOR_BLF_VERIF',
                   enable='no hooks in /repo: harnesses are compiled with -fno-access-control and -DTECHNICA_ENGINEERING_VECTOR_BLF_VERIF; the define guards nothing in the sources',
                   baseline_off_cmd='/verif/run_repo_tests.sh /tmp/vp_repo_build_off 900',
                   source_commits=[], add_only=True),
        engines=[dict(name=ENGINE, path='engine/', serves_properties=sorted(CHECKS),
                      kind_free_text='own path-forking symbolic executor over clang-14 LLVM IR of the real sources '
                                     '(engine/symex.py, irparse.py, expr.py, models.py) with z3 as deciding solver; '
                                     'harnesses are generated C++ against the public API; native replay and '
                                     'executor-vs-native validation per run')],
        checks=checks,
        not_applicable=na,
        notes='All checks rebuild IR from /repo\'s working tree (content-hash cache under /verif/out). '
              'known_findings.txt lists recorded findings and fix: commits.')
    with open(os.path.join(VERIF, 'MANIFEST.json'), 'w') as f:
        json.dump(m, f, indent=1)
    print('MANIFEST.json: %d checks, %d not applicable' % (len(checks), len(na)))


if __name__ == '__main__':
    main()
