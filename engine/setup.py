"""setup_cmd: offline, from files on disk only.  Pre-compiles the repo TUs to IR (cache) and self-tests the engine."""
import os
import sys
import time

HERE = os.path.dirname(os.path.abspath(__file__))
sys.path.insert(0, HERE)
import build


def main():
    t = time.time()
    os.makedirs(build.OUT, exist_ok=True)
    irs = build.repo_ir()
    ms = build.repo_modules()
    print('setup: %d TUs -> IR, %d modules parsed, %.1fs' % (len(irs), len(ms), time.time() - t))
    import z3
    print('z3', z3.get_version_string())
    import selftest
    selftest.main(2000)
    return 0


if __name__ == '__main__':
    sys.exit(main())
