#!/bin/sh
# Build /repo's working tree into a scratch dir and run its test suite (guard OFF).
# usage: run_repo_tests.sh [builddir] [per-test timeout]
B=${1:-/tmp/vp_repo_build}
T=${2:-900}
set -e
cmake -G Ninja -S /repo -B "$B" -DOPTION_RUN_DOXYGEN=OFF -DOPTION_BUILD_TESTS=ON -DOPTION_BUILD_EXAMPLES=OFF >/dev/null
cmake --build "$B" -j16 >/dev/null
ctest --test-dir "$B" -j8 --timeout "$T" 2>&1 | tail -15
