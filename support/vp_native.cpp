// Native implementation of the harness intrinsics: replays one counterexample
// (or runs one validation vector) against the real build of the library.
// Input: file named by $VP_INPUTS, one "name value" pair per line in creation order.
// Output on stdout: OUT <tag> <hex>, NOTE <key> <value>, ASSERT_FAIL <msg>, ASSUME_FALSE, REACH <tag>.
#include <vp.h>
#include <cstdio>
#include <cstdlib>
#include <cstring>
#include <new>
#include <unistd.h>
#include <malloc.h>
#include <condition_variable>
#include <mutex>
#include <pthread.h>
#include <string>
#include <vector>

static std::vector<unsigned long long> g_vals;
static size_t g_pos = 0;
static bool g_loaded = false;

static void load() {
    if (g_loaded) return;
    g_loaded = true;
    const char * p = getenv("VP_INPUTS");
    if (!p) return;
    FILE * f = fopen(p, "r");
    if (!f) return;
    char name[512];
    unsigned long long v;
    while (fscanf(f, "%511s %llu", name, &v) == 2) g_vals.push_back(v);
    fclose(f);
}
static unsigned long long next() {
    load();
    if (g_pos < g_vals.size()) return g_vals[g_pos++];
    g_pos++;
    return 0;
}

extern "C" {
uint8_t  vp_u8(const char *) { return static_cast<uint8_t>(next()); }
uint16_t vp_u16(const char *) { return static_cast<uint16_t>(next()); }
uint32_t vp_u32(const char *) { return static_cast<uint32_t>(next()); }
uint64_t vp_u64(const char *) { return next(); }
void vp_bytes(void * p, uint64_t n, const char *) {
    unsigned char * q = static_cast<unsigned char *>(p);
    for (uint64_t i = 0; i < n; i++) q[i] = static_cast<unsigned char>(next());
}
uint32_t vp_choose(uint32_t n, const char *) { uint32_t v = static_cast<uint32_t>(next()); return n ? v % n : 0; }
void vp_assume(int c) { if (!c) { printf("ASSUME_FALSE\n"); fflush(stdout); _Exit(0); } }
void vp_assert(int c, const char * msg) { if (!c) { printf("ASSERT_FAIL %s\n", msg); fflush(stdout); } }
void vp_reach(const char * tag) { printf("REACH %s\n", tag); fflush(stdout); }
void vp_out(const void * p, uint64_t n, const char * tag) {
    const unsigned char * q = static_cast<const unsigned char *>(p);
    printf("OUT %s ", tag);
    for (uint64_t i = 0; i < n; i++) printf("%02x", q[i]);
    printf("\n"); fflush(stdout);
}
void vp_note(const char * key, uint64_t v) { printf("NOTE %s %llu\n", key, static_cast<unsigned long long>(v)); fflush(stdout); }
static int g_probe = 0;
int  vp_probe(int on) { int o = g_probe; g_probe = on; return o; }
uint64_t vp_flag(const char *) { return 0; }
void vp_set_flag(const char *, uint64_t) {}
static long g_live_bytes = 0;
uint64_t vp_live_heap(void) { return static_cast<uint64_t>(__atomic_load_n(&g_live_bytes, __ATOMIC_RELAXED)); }
uint64_t vp_check_leaks(void) { return 0; }
void vp_free_now(void *) {}
int  vp_mutex_held(const void *) { return 1; }
int  vp_threads_alive(void) { return 0; }
void vp_yield(void) { static int ms = -1; if (ms < 0) { const char * p = getenv("VP_YIELD_MS"); ms = p ? atoi(p) : 30; } usleep(ms * 1000); }     /* let the worker threads run until they park */
static const void * g_ncv[64]; static uint64_t g_ncnt[64]; static int g_nn = 0;
static pthread_mutex_t g_nmx = PTHREAD_MUTEX_INITIALIZER;
static void note_notify(const void * cv) {
    pthread_mutex_lock(&g_nmx);
    int i = 0; for (; i < g_nn; i++) if (g_ncv[i] == cv) break;
    if (i == g_nn && g_nn < 64) { g_ncv[g_nn] = cv; g_ncnt[g_nn] = 0; g_nn++; }
    if (i < 64) g_ncnt[i]++;
    pthread_mutex_unlock(&g_nmx);
}
uint64_t vp_notified(const void * cv) {
    uint64_t r = 0; pthread_mutex_lock(&g_nmx);
    for (int i = 0; i < g_nn; i++) if (g_ncv[i] == cv) r = g_ncnt[i];
    pthread_mutex_unlock(&g_nmx); return r;
}
void vp_concolic_stop(void) {}
void vp_sched_point(const char * tag) { const char * p = getenv("VP_DELAY_AT"); if (p && strcmp(p, tag) == 0) usleep(300000); }
uint64_t vp_concrete(uint64_t v) { return v; }
void vp_watch(const void *, uint64_t, const char *) {}
}

// heap poison: every operator-new block is pre-filled with $VP_POISON (default 0xA5), so that
// output depending on never-written heap memory differs between two poison values
static int poison_byte() {
    static int v = -1;
    if (v < 0) { const char * p = getenv("VP_POISON"); v = p ? static_cast<int>(strtol(p, nullptr, 0)) & 255 : 0xA5; }
    return v;
}
#if defined(__has_feature)
#if __has_feature(thread_sanitizer)
#define VP_TSAN_BUILD 1       /* ThreadSanitizer brings its own operator new / delete */
#endif
#endif
#ifndef VP_TSAN_BUILD
void * operator new(size_t n) {
    void * p = malloc(n ? n : 1);
    if (!p) throw std::bad_alloc();
    memset(p, poison_byte(), n);
    __atomic_add_fetch(&g_live_bytes, static_cast<long>(malloc_usable_size(p)), __ATOMIC_RELAXED);
    return p;
}
static void vp_free(void * p) { if (p) { __atomic_sub_fetch(&g_live_bytes, static_cast<long>(malloc_usable_size(p)), __ATOMIC_RELAXED); free(p); } }
void * operator new[](size_t n) { return operator new(n); }
void operator delete(void * p) noexcept { vp_free(p); }
void operator delete[](void * p) noexcept { vp_free(p); }
void operator delete(void * p, size_t) noexcept { vp_free(p); }
void operator delete[](void * p, size_t) noexcept { vp_free(p); }
#endif

// std::condition_variable out-of-line members, interposed: real pthread semantics plus probe mode
// (a wait that would block throws VpBlocked) and notify counting.
namespace std {
void condition_variable::wait(unique_lock<mutex> & l) {
    if (g_probe) throw VpBlocked();
    pthread_cond_wait(reinterpret_cast<pthread_cond_t *>(native_handle()), l.mutex()->native_handle());
}
void condition_variable::notify_all() noexcept {
    note_notify(this);
    pthread_cond_broadcast(reinterpret_cast<pthread_cond_t *>(native_handle()));
}
void condition_variable::notify_one() noexcept {
    note_notify(this);
    pthread_cond_signal(reinterpret_cast<pthread_cond_t *>(native_handle()));
}
}

// chaos scheduling for the replay of schedule-dependent counterexamples: with $VP_CHAOS=<seed> every mutex release is
// followed, pseudo-randomly, by a short sleep, which hands the processor to the other session threads at that point.
// Targeted replay: $VP_PAUSE=<thread>:<kind>:<count>:<ms> pauses thread number <thread> (0 = main, others in creation
// order, as in llsym) for <ms> milliseconds right after its <count>-th explicit mutex unlock (kind U), right after its
// <count>-th mutex lock call returned (kind L, i.e. inside the critical section) or after it created its <count>-th thread
// (kind S) - the preemption point of the symbolic schedule.
#include <dlfcn.h>
#include <unistd.h>
static unsigned g_chaos = 0; static int g_chaos_init = 0;
static int g_pause_init = 0, g_pause_tid = -1, g_pause_cnt = -1, g_pause_ms = 0; static char g_pause_kind = 0;
static __thread int t_ord = 0, t_cntU = 0, t_cntL = 0, t_cntS = 0;
static int g_nthreads = 0;
static void pause_check(char kind, int cnt) {
    if (!g_pause_init) {
        const char * p = getenv("VP_PAUSE");
        if (p) { int a = -1, c = -1, ms = 0; char k = 0; if (sscanf(p, "%d:%c:%d:%d", &a, &k, &c, &ms) == 4) { g_pause_tid = a; g_pause_kind = k; g_pause_cnt = c; g_pause_ms = ms; } }
        g_pause_init = 1;
    }
    if (g_pause_tid == t_ord && g_pause_kind == kind && g_pause_cnt == cnt) usleep(static_cast<useconds_t>(g_pause_ms) * 1000);
}
// a sanitizer runtime that intercepts these functions itself (ThreadSanitizer) must still see the calls
extern "C" int __interceptor_pthread_mutex_unlock(pthread_mutex_t *) __attribute__((weak));
extern "C" int __interceptor_pthread_mutex_lock(pthread_mutex_t *) __attribute__((weak));
extern "C" int pthread_mutex_unlock(pthread_mutex_t * m) {
    typedef int (*fn_t)(pthread_mutex_t *);
    static fn_t real = nullptr;
    if (!real) real = __interceptor_pthread_mutex_unlock ? __interceptor_pthread_mutex_unlock : reinterpret_cast<fn_t>(dlsym(RTLD_NEXT, "pthread_mutex_unlock"));
    int r = real(m);
    if (m == &g_nmx) return r;
    if (!g_chaos_init) { const char * p = getenv("VP_CHAOS"); g_chaos = p ? static_cast<unsigned>(strtoul(p, nullptr, 0)) : 0; g_chaos_init = 1; }
    if (g_chaos) {
        unsigned x = __atomic_add_fetch(&g_chaos, 0x9E3779B9u, __ATOMIC_RELAXED);
        x ^= x >> 15; x *= 0x2C1B3C6Du; x ^= x >> 12;
        if ((x & 3) == 0) usleep(300);
    }
    pause_check('U', ++t_cntU);
    // $VP_MAIN_SLOW=<ms>: the application thread pauses after every mutex release, so the workers run until they park - the
    // native counterpart of llsym's cooperative schedule (a thread runs until it blocks)
    static int slow = -1;
    if (slow < 0) { const char * p = getenv("VP_MAIN_SLOW"); slow = p ? atoi(p) : 0; }
    if (slow > 0 && t_ord == 0) usleep(static_cast<useconds_t>(slow) * 1000);
    return r;
}
extern "C" int pthread_mutex_lock(pthread_mutex_t * m) {
    typedef int (*fn_t)(pthread_mutex_t *);
    static fn_t real = nullptr;
    if (!real) real = __interceptor_pthread_mutex_lock ? __interceptor_pthread_mutex_lock : reinterpret_cast<fn_t>(dlsym(RTLD_NEXT, "pthread_mutex_lock"));
    int r = real(m);
    if (m != &g_nmx) pause_check('L', ++t_cntL);
    return r;
}
struct vp_start { void * (*fn)(void *); void * arg; int ord; };
static void * vp_tramp(void * p) { vp_start s = *static_cast<vp_start *>(p); free(p); t_ord = s.ord; return s.fn(s.arg); }
extern "C" int __interceptor_pthread_create(pthread_t *, const pthread_attr_t *, void * (*)(void *), void *) __attribute__((weak));
extern "C" int pthread_create(pthread_t * t, const pthread_attr_t * a, void * (*fn)(void *), void * arg) {
    typedef int (*fn_t)(pthread_t *, const pthread_attr_t *, void * (*)(void *), void *);
    static fn_t real = nullptr;
    if (!real) real = __interceptor_pthread_create ? __interceptor_pthread_create : reinterpret_cast<fn_t>(dlsym(RTLD_NEXT, "pthread_create"));
    vp_start * s = static_cast<vp_start *>(malloc(sizeof(vp_start)));
    s->fn = fn; s->arg = arg; s->ord = __atomic_add_fetch(&g_nthreads, 1, __ATOMIC_RELAXED);
    int r = real(t, a, vp_tramp, s);
    pause_check('S', ++t_cntS);
    // $VP_CHILD_FIRST=<ms>: the creator pauses after starting a thread - native counterpart of llsym's second base schedule
    static int cf = -1;
    if (cf < 0) { const char * p = getenv("VP_CHILD_FIRST"); cf = p ? atoi(p) : 0; }
    if (cf > 0) usleep(static_cast<useconds_t>(cf) * 1000);
    return r;
}

extern "C" void VP_ENTRY();
static void * g_shift_blocks[4096];
int main() {
    setvbuf(stdout, nullptr, _IOLBF, 0);
    // $VP_HEAP_SHIFT=<k>: k rounds of allocations of every small size class are made (and kept) first, so that the
    // objects of the harness live at other heap addresses than in a run without it
    if (const char * p = getenv("VP_HEAP_SHIFT")) {
        int k = atoi(p), n = 0;
        for (int r = 0; r < k; r++) for (size_t s = 8; s <= 2048 && n < 4096; s *= 2) g_shift_blocks[n++] = malloc(s + static_cast<size_t>(r));
    }
    VP_ENTRY();
    printf("DONE\n");
    return 0;
}
