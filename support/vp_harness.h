// Generic fill / export helpers for generated codec harnesses.
#pragma once
#include <vp.h>
#include <memfile.h>
#include <array>
#include <cstring>
#include <string>
#include <type_traits>
#include <vector>

#ifndef VP_MAXLEN
#define VP_MAXLEN 8
#endif

template<class T>
typename std::enable_if<std::is_integral<T>::value || std::is_enum<T>::value>::type
vp_fill(T & x, const char * nm) {
    if (std::is_same<T, bool>::value) { uint8_t v = vp_u8(nm) & 1; memcpy(&x, &v, 1); return; }
    switch (sizeof(T)) {
    case 1: { uint8_t v = vp_u8(nm); memcpy(&x, &v, 1); break; }
    case 2: { uint16_t v = vp_u16(nm); memcpy(&x, &v, 2); break; }
    case 4: { uint32_t v = vp_u32(nm); memcpy(&x, &v, 4); break; }
    default: { uint64_t v = vp_u64(nm); memcpy(&x, &v, 8); break; }
    }
}
inline void vp_fill(double & x, const char * nm) { uint64_t v = vp_u64(nm); memcpy(&x, &v, 8); }
inline void vp_fill(float & x, const char * nm) { uint32_t v = vp_u32(nm); memcpy(&x, &v, 4); }
template<class T, size_t N> void vp_fill(std::array<T, N> & a, const char * nm) {
    if (sizeof(T) == 1) { vp_bytes(a.data(), N, nm); return; }
    for (size_t i = 0; i < N; i++) vp_fill(a[i], nm);
}
template<class T> void vp_fill(std::vector<T> & v, const char * nm) {
    uint32_t n = vp_choose(VP_MAXLEN + 1, nm);
    v.resize(n);
    if (sizeof(T) == 1) { if (n) vp_bytes(v.data(), n, nm); return; }
    for (uint32_t i = 0; i < n; i++) vp_fill(v[i], nm);
}
template<class C> void vp_fill(std::basic_string<C> & s, const char * nm) {
    uint32_t n = vp_choose(VP_MAXLEN + 1, nm);
    s.resize(n);
    if (n) vp_bytes(&s[0], n * sizeof(C), nm);
}

template<class T>
typename std::enable_if<std::is_arithmetic<T>::value || std::is_enum<T>::value>::type
vp_exp(const T & x, const char * tag) { vp_out(&x, sizeof x, tag); }
template<class T, size_t N> void vp_exp(const std::array<T, N> & a, const char * tag) { vp_out(a.data(), N * sizeof(T), tag); }
template<class T> void vp_exp(const std::vector<T> & v, const char * tag) { vp_out(v.data(), v.size() * sizeof(T), tag); }
template<class C> void vp_exp(const std::basic_string<C> & s, const char * tag) { vp_out(s.data(), s.size() * sizeof(C), tag); }
