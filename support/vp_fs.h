// Harness-side in-memory file system used with the stub <fstream> (symbolic build) and mirrored onto
// real temporary files in the native replay build.
#pragma once
#include <cstring>
#include <vp.h>

#ifndef VP_FS_CAP
#define VP_FS_CAP 2048
#endif

#ifdef VP_NATIVE_FS
#include <cstdio>
#include <cstdlib>
#include <string>
#include <unistd.h>
// native: files live in $VP_TMP (or /tmp); helpers read/write them through stdio
static std::string vp_path(const char * name) { const char * d = getenv("VP_TMP"); return std::string(d ? d : "/tmp") + "/" + name; }
static void vp_fs_put(const char * name, const unsigned char * p, long n) {
    FILE * f = fopen(vp_path(name).c_str(), "wb"); if (f) { if (n > 0) fwrite(p, 1, static_cast<size_t>(n), f); fclose(f); } }
static long vp_fs_get(const char * name, unsigned char * p, long cap) {
    FILE * f = fopen(vp_path(name).c_str(), "rb"); if (!f) return -1; long n = static_cast<long>(fread(p, 1, static_cast<size_t>(cap), f)); fclose(f); return n; }
static void vp_fs_remove(const char * name) { unlink(vp_path(name).c_str()); }
static void vp_fs_truncate(const char * name, long n) { if (truncate(vp_path(name).c_str(), n)) {} }
#define VP_FILE(name) (vp_path(name).c_str())
#else
#include <vp_file.h>
static unsigned char vp_fs_buf0[VP_FS_CAP], vp_fs_buf1[VP_FS_CAP];
static vp_file vp_fs_files[3] = {
    {"a.blf", vp_fs_buf0, 0, VP_FS_CAP, false, true, -1},
    {"b.blf", vp_fs_buf1, 0, VP_FS_CAP, false, true, -1},
    {"ro/x.blf", nullptr, 0, 0, false, false, -1},      // directory does not exist / not writable
};
extern "C" vp_file * vp_fs_lookup(const char * name) {
    for (vp_file & f : vp_fs_files) if (strcmp(f.name, name) == 0) return &f;
    return nullptr;
}
static void vp_fs_put(const char * name, const unsigned char * p, long n) {
    vp_file * f = vp_fs_lookup(name); if (!f || n > f->cap) return;
    if (n > 0) memcpy(f->data, p, static_cast<size_t>(n)); f->size = n; f->exists = true; f->limit = -1; }
static long vp_fs_get(const char * name, unsigned char * p, long cap) {
    vp_file * f = vp_fs_lookup(name); if (!f || !f->exists) return -1;
    long n = f->size < cap ? f->size : cap; if (n > 0) memcpy(p, f->data, static_cast<size_t>(n)); return n; }
static void vp_fs_remove(const char * name) { vp_file * f = vp_fs_lookup(name); if (f) { f->exists = false; f->size = 0; } }
static void vp_fs_truncate(const char * name, long n) { vp_file * f = vp_fs_lookup(name); if (f) f->limit = n; }
#define VP_FILE(name) (name)
#endif
