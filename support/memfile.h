// Flat in-memory AbstractFile used by codec-level harnesses.
// Contract = the one C15 establishes for UncompressedFile: reads past the end are
// short and set eof|fail, seekg is relative and clamps at the end.
#pragma once
#include <cstring>
#include <Vector/BLF/AbstractFile.h>

struct MemFile final : Vector::BLF::AbstractFile {
    unsigned char * buf;
    std::streamsize cap;      // capacity of buf
    std::streamsize size {0}; // bytes present (put high-water mark / preset content)
    std::streamsize g {0}, p {0}, gc {0};
    bool fail_ {false}, eof_ {false}, overflow {false};
    MemFile(unsigned char * b, std::streamsize c, std::streamsize preset = 0) : buf(b), cap(c), size(preset) {}
    std::streamsize gcount() const override { return gc; }
    void read(char * s, std::streamsize n) override {
        if (n + g > size) { n = size - g; fail_ = true; eof_ = true; } else { fail_ = false; eof_ = false; }
        if (n < 0) n = 0;
        if (n > 0) memcpy(s, buf + g, static_cast<size_t>(n));
        gc = n; g += n;
    }
    std::streampos tellg() override { return fail_ ? std::streampos(-1) : std::streampos(g); }
    void seekg(std::streamoff off, const std::ios_base::seekdir = std::ios_base::cur) override {
        g += off; if (g > size) g = size; if (g < 0) g = 0;
    }
    void write(const char * s, std::streamsize n) override {
        if (n <= 0) return;
        if (p + n > cap) { overflow = true; n = cap - p; if (n <= 0) return; }
        memcpy(buf + p, s, static_cast<size_t>(n));
        p += n; if (p > size) size = p;
    }
    std::streampos tellp() override { return fail_ ? std::streampos(-1) : std::streampos(p); }
    bool good() const override { return !fail_ && !eof_; }
    bool eof() const override { return eof_; }
};
