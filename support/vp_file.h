#pragma once
struct vp_file {
    const char * name;
    unsigned char * data;
    long size;      // bytes present
    long cap;       // capacity of data
    bool exists;
    bool writable;
    long limit;     // bytes visible to readers (truncation point); -1 = all
};
