// Contract model of zlib for the symbolic build (linked instead of libz):
//   compress2 needs a destination of compressBound(n) bytes (documented precondition); uncompress(compress2(x, level)) == x;
//   truncated or corrupted streams are rejected; a too small destination gives Z_BUF_ERROR;
//   levels outside -1..9 give Z_STREAM_ERROR.  Format: 0x78, level byte, payload, 32-bit sum.
#include <cstring>
extern "C" {
typedef unsigned char Bytef;
typedef unsigned long uLong;
typedef uLong uLongf;
#define Z_OK 0
#define Z_STREAM_ERROR (-2)
#define Z_DATA_ERROR (-3)
#define Z_BUF_ERROR (-5)
unsigned long vp_zlib_calls;
int vp_zlib_last_level;
uLong compressBound(uLong n) { return n + (n >> 12) + (n >> 14) + (n >> 25) + 13; }
static unsigned vp_sum(const Bytef * p, uLong n) { unsigned s = 1; for (uLong i = 0; i < n; i++) s = s * 31 + p[i]; return s; }
int compress2(Bytef * dest, uLongf * destLen, const Bytef * src, uLong n, int level) {
    vp_zlib_calls++; vp_zlib_last_level = level;
    if (level < -1 || level > 9) return Z_STREAM_ERROR;
    // zlib's documented precondition: "destLen must be at least the value returned by compressBound(sourceLen)" - with less,
    // compress2 fails for data that deflate cannot shrink (one stored-block header per 16 KiB); the model insists on it
    if (*destLen < compressBound(n)) return Z_BUF_ERROR;
    dest[0] = 0x78; dest[1] = static_cast<Bytef>(level < 0 ? 6 : level);
    if (n) memcpy(dest + 2, src, n);
    unsigned s = vp_sum(src, n);
    memcpy(dest + 2 + n, &s, 4);
    *destLen = n + 6;
    return Z_OK;
}
int uncompress(Bytef * dest, uLongf * destLen, const Bytef * src, uLong n) {
    if (n < 6) { *destLen = 0; return Z_BUF_ERROR; }
    if (src[0] != 0x78 || src[1] > 9) { *destLen = 0; return Z_DATA_ERROR; }
    uLong m = n - 6;
    if (*destLen < m) { return Z_BUF_ERROR; }
    if (m) memcpy(dest, src + 2, m);
    unsigned s; memcpy(&s, src + 2 + m, 4);
    *destLen = m;
    if (s != vp_sum(dest, m)) return Z_DATA_ERROR;
    return Z_OK;
}
}
