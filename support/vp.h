// Harness intrinsics for llsym (symbolic run) and for the native replay build.
// In the symbolic run these are external calls modelled by engine/models.py;
// in the replay build support/vp_native.cpp implements them from a value file.
#pragma once
#include <cstdint>
#include <cstddef>

extern "C" {
uint8_t  vp_u8(const char * name);
uint16_t vp_u16(const char * name);
uint32_t vp_u32(const char * name);
uint64_t vp_u64(const char * name);
void     vp_bytes(void * p, uint64_t n, const char * name);   // n fresh symbolic bytes
uint32_t vp_choose(uint32_t n, const char * name);            // value in 0..n-1 (structural choice)
void     vp_assume(int c);
void     vp_assert(int c, const char * msg);
void     vp_reach(const char * tag);
void     vp_out(const void * p, uint64_t n, const char * tag);
void     vp_note(const char * key, uint64_t v);
int      vp_probe(int on);                  // on: condition_variable::wait throws VpBlocked instead of blocking
uint64_t vp_flag(const char * name);        // executor-side counters
void     vp_set_flag(const char * name, uint64_t v);
uint64_t vp_live_heap(void);
uint64_t vp_check_leaks(void);
void     vp_free_now(void * p);
int      vp_mutex_held(const void * m);
int      vp_threads_alive(void);
void     vp_yield(void);
void     vp_sched_point(const char * tag);   // native replay: sleeps here when $VP_DELAY_AT names the tag; symbolic: no effect
uint64_t vp_notified(const void * cv);    // number of notify calls on that condition variable so far
void     vp_concolic_stop(void);          // end of the witness-guided prefix (C02)
uint64_t vp_concrete(uint64_t v);        // fork: one path per feasible value
void     vp_watch(const void * p, uint64_t n, const char * tag);   // record which bytes get written
}

struct VpBlocked { int dummy; };

#define VP_ASSERT(c) vp_assert((c) ? 1 : 0, #c)
