"""C13 Every object is released exactly once and sessions shut down cleanly."""
import os

import codec_common as CC
import session_common as SC
from framework import Task

HERE = os.path.dirname(os.path.abspath(__file__))
OPS = ['open(missing,in)', 'open(unwritable,out)', 'open(valid,in)', 'open(out)', 'read', 'write(obj)', 'close', 'destroy']


def tasks(tier, seed):
    src = open(os.path.join(HERE, 'harness', 'c13_hist.cpp')).read()
    steps = 4 if tier == 'quick' else 6
    ts = []
    # first two operations fixed per task (parallelism); read/write cannot come first
    firsts = [(a, b) for a in (0, 1, 2, 3, 6, 7) for b in range(8)]
    for a, b in firsts:
        if a == 7 and b != 0:
            continue
        if b == 4 and a not in (2, 3):
            continue
        if (b == 4 and a != 2) or (b == 5 and a == 2):
            continue
        txt = '#define VP_FS_CAP 4096\n#define STEPS %d\n#define FIRST_OP %d\n#define SECOND_OP %d\n' % (steps, a, b) + src
        ts.append(Task('hist.%s.%s' % (OPS[a].split('(')[0] + str(a), OPS[b].split('(')[0] + str(b)), txt, 'h_hist', None,
                       opts=dict(validate=False, extra=['zlib_stub.cpp'], limit_is_hang=True, max_wall=1500, max_steps=6000000, enum_limit=400,
                                 max_paths=400000),
                       desc='all API histories of length %d starting with %s, %s over {open(missing), open(unwritable), open(valid,in), '
                            'open(out), read, write(obj), close, destroy} that respect the session mode; the consumer deletes what '
                            'read() returns; File destroyed at the end; leak check over the whole heap, threads joined, '
                            'is_open/good/eof against a reference state machine' % (steps, OPS[a], OPS[b]),
                       reach=('h_hist:end',), bounds='history length %d; files of 2 objects' % steps,
                       kinds={'assert', 'memory', 'leak', 'uncaught_exception', 'terminate', 'deadlock', 'hang', 'limit'}))
    # crash-leftover file: the stream ends inside an object; everything the library allocated for it must still be released
    for b in (4, 6, 7):
        txt = '#define VP_FS_CAP 4096\n#define STEPS %d\n#define FIRST_OP 2\n#define SECOND_OP %d\n#define DAMAGED_FILE 1\n' % (steps, b) + src
        ts.append(Task('hist_damaged.open_valid.%s' % OPS[b].split('(')[0], txt, 'h_hist', None,
                       opts=dict(validate=False, extra=['zlib_stub.cpp'], limit_is_hang=True, max_wall=1500, max_steps=6000000, enum_limit=400,
                                 max_paths=400000),
                       desc='histories of length %d starting with open(in) of a file whose last container lost its tail (an object '
                            'ends abruptly), then %s, ...: leak / lifetime checks' % (steps, OPS[b]),
                       reach=('h_hist:end',), bounds='history length %d' % steps,
                       kinds={'assert', 'memory', 'leak', 'uncaught_exception', 'terminate', 'deadlock', 'hang', 'limit'}))
    # the file exists but is not a BLF file (wrong signature): open() throws before the workers exist
    for b in (6, 7):
        txt = '#define VP_FS_CAP 4096\n#define STEPS %d\n#define FIRST_OP 2\n#define SECOND_OP %d\n#define GARBAGE_FILE 1\n' % (min(steps, 4), b) + src
        ts.append(Task('hist_garbage.open_valid.%s' % OPS[b].split('(')[0], txt, 'h_hist', None,
                       opts=dict(validate=False, extra=['zlib_stub.cpp'], limit_is_hang=True, max_wall=1500, max_steps=6000000, enum_limit=400,
                                 max_paths=400000),
                       desc='histories starting with open(in) of an existing file with a wrong signature (open throws, no worker '
                            'threads exist), then %s, ...: no crash, everything released' % OPS[b],
                       reach=('h_hist:end',), bounds='history length %d' % min(steps, 4),
                       kinds={'assert', 'memory', 'leak', 'uncaught_exception', 'terminate', 'deadlock', 'hang', 'limit'}))
    # a write session whose compression fails (level 10 is documented in File.h but rejected by zlib), back-pressure
    # thresholds scaled down: the session must still end, every object must be released
    for t0 in SC.session_tasks('quick', [], 'session_level10', None, nobj=7, scaled=True)[:1]:
        t0.text = t0.text.replace('#define CFG_LEVEL 0', '#define CFG_LEVEL 10').replace('#define CFG_LEVEL 6', '#define CFG_LEVEL 10')
        t0.text = '#define WRITE_ONLY_SESSION 1\n' + t0.text
        t0.tid = 'session_level10_scaled'
        t0.desc = 'write session with compressionLevel 10 (compress2 fails), 7 objects, queue capacity 2, small stream buffer: close() returns, nothing leaked'
        t0.kinds = {'memory', 'leak', 'uncaught_exception', 'terminate', 'deadlock', 'hang', 'limit'}
        ts.append(t0)
    meta = dict(
        level='model_checking',
        explanation='Histories of API calls are enumerated completely up to the bound (structural choices fork paths); each runs the '
                    'real File with its worker threads in llsym, whose heap is lifetime-checked: double free, use after free and '
                    'any block still allocated at the end of the history (objects passed to write(), objects still inside queue '
                    'or stream, containers, thread state) are reported, as are unjoined threads and states of '
                    'is_open()/good()/eof() that differ from the reference state machine.',
        trusted_base=CC.TRUSTED + SC.SESSION_TRUST,
        bounds='history length 4 (quick) / 6 (thorough); files of 2 objects; one cooperative schedule per history (other schedules: C07/C11)',
        assumptions=['histories longer than the bound (the property text mentions 12) are outside the claim'],
        validate=0)
    return ts, meta
