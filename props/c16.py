"""C16 The object queue is a bounded FIFO with exact end-of-stream and abort."""
import os

import codec_common as CC
from framework import Task

HERE = os.path.dirname(os.path.abspath(__file__))


def tasks(tier, seed):
    steps = 3 if tier == 'quick' else 5
    src = open(os.path.join(HERE, 'harness', 'c16_queue.cpp')).read()
    ts = []
    for first in range(5):
        txt = '#define STEPS %d\n#define FIRST_OP %d\n' % (steps, first) + src
        ts.append(Task('queue.first_op_%d' % first, txt, 'h_queue', None,
                       opts=dict(max_paths=400000, max_wall=900 if tier == 'quick' else 3000, validate=False),
                       desc='ObjectQueue from an arbitrary counter state (tellg, tellp, fileSize, bufferSize symbolic 32 bit, '
                            '0..2 queued objects), %d operations from {write, read, setFileSize(sym), setBufferSize(sym), abort} '
                            '(first = %d), each compared with a reference model; blocking decided by the real wait predicates '
                            '(probe mode)' % (steps, first),
                       reach=('h_queue:end',), bounds='%d operations, <= 2 preloaded objects' % steps,
                       kinds={'assert', 'memory', 'leak', 'uncaught_exception', 'terminate', 'deadlock'}))
    meta = dict(
        level='model_checking',
        explanation='The real ObjectQueue<ObjectHeaderBase> methods run symbolically from an arbitrary counter state; '
                    'condition_variable::wait is in probe mode (the real predicate lambda is evaluated by the real code, a '
                    'blocked wait is reported to the harness). z3 decides per path: FIFO order and exactly-once delivery, '
                    'tellg/tellp/good/eof equal to a reference model, producer held back iff size >= capacity and not '
                    'aborted, consumer blocked iff empty and not aborted and declared size not consumed, eof only when '
                    'empty, abort releases both kinds of waiter and notifies both condition variables, every operation '
                    'that makes a waiter\'s predicate true notifies its condition variable (no lost wake-up), destructor '
                    'frees what is queued (leak check).',
        trusted_base=CC.TRUSTED + ['engine/models.py: mutex / condition_variable (probe mode)'],
        bounds='operation sequences of length 3 (quick) / 5 (thorough) from an arbitrary counter state',
        assumptions=['all interleavings reduce to atomic method executions because every method holds the queue mutex for '
                     'its whole body (checked in C11); spurious wake-ups are harmless with predicate loops'],
        validate=0)
    return ts, meta
