"""Shared task builder for the codec-level properties (C01, C03, C14, C17)."""
import blfwalk
import codec
import reflect
from framework import Task

TRUSTED = [
    'clang++-14 -O1 front end and LLVM IR semantics as implemented by engine/symex.py (validated per run against '
    'the native g++/clang build on random concrete vectors)',
    'engine/models.py: operator new/delete, memcpy/memset/memcmp, __cxa_* exception runtime, std::__throw_*',
    'support/memfile.h: flat in-memory AbstractFile (short read sets eof|fail, relative clamped seekg)',
    'libstdc++ 12 header code for vector/string/array is executed as IR (extern templates disabled), not modelled',
    'z3 (QF_BV) for every satisfiability answer',
]


def padding_classes():
    r = reflect.reflect()
    code2cls = {v: c for c, n, v in r['table']}
    return {code2cls[c] for c in blfwalk.survey()['padding_types'] if c in code2cls}


def big_tasks(tier, kinds):
    """one payload container at a boundary length (257, 65537) - catches narrowing of length fields"""
    pads = padding_classes()
    out = []
    for cls in codec.classes():
        for k, path, ls in codec.big_lengths(cls):
            for n in (ls if tier != 'quick' else ls[-1:]):
                txt = '#define VP_BIG_IDX %d\n#define VP_BIG_LEN %d\n#define VP_BIG_CAP %d\n' % (k, n, 8 * n + 4096) + codec.gen(cls, maxlen=0)
                out.append(Task('%s.h_big.%s.%d' % (cls, path, n), txt, 'h_big', codec.make_rt_judge(cls, pads),
                                opts=dict(validate=False, max_steps=30000000, max_wall=600),
                                desc='%s with %s of %d elements (first bytes symbolic), other containers empty, scalars symbolic: '
                                     'write -> read' % (cls, path, n), reach=('h_big:end',), bounds='one container of %d elements' % n,
                                kinds=kinds))
    return out


def rt_tasks(tier, kinds, entry='h_rt', classes=None):
    maxlen = 4 if tier == 'quick' else 8
    pads = padding_classes()
    out = []
    for cls in (classes or codec.classes()):
        txt = codec.gen(cls, maxlen=maxlen)
        j = codec.make_rt_judge(cls, pads, default_obj=(entry == 'h_default'))
        out.append(Task('%s.%s' % (cls, entry), txt, entry, j, desc='%s: populate every API member symbolically '
                        '(scalars full width, containers length 0..%d with symbolic contents, size/length fields '
                        'stale), write -> read -> write on an in-memory stream' % (cls, maxlen),
                        reach=(entry + ':end',), bounds='container length <= %d' % maxlen, kinds=kinds))
    return out
