"""C14 Output bytes are a deterministic function of objects and configuration."""
import codec
import codec_common as CC
import run
import sched_common as SCH
from framework import Task


def tasks(tier, seed):
    # reading outside the caller's containers while encoding puts foreign heap bytes into the output: counts here, too
    ts = CC.rt_tasks(tier, kinds={'uninit_output', 'memory', 'address_dependent'}) + CC.rt_tasks(tier, kinds={'uninit_output', 'memory'}, entry='h_default')
    for t in ts:
        if t.entry == 'h_rt':
            # the same paths once more with every heap object at another address: emitted bytes must be the same terms
            t.opts = dict(t.opts or {}, twin_heap_shift=0x23450, twin_tags=('bytes1',))
            t.desc += '; executed twice, the second time with the heap shifted by 0x23450 bytes: the emitted bytes must not change'
    # sparse population: only the members that steer the codec's control flow (found by a pre-run: they occur in a path
    # condition of the round-trip harness) are set, symbolically; every other member keeps its constructed value, so a
    # member without initialiser that only one variant emits shows up as dependence on never-written memory
    classes = codec.classes()
    sel = run.pmap(lambda c: (c, codec.selectors(c)), [(c,) for c in classes])
    for item in sel:
        if isinstance(item, dict):
            continue
        cls, names = item
        if not names:
            continue
        stale = set(codec.length_fields(cls)) | {'headerSize', 'objectSize'}
        fills = ' '.join('vp_fill(a.%s, "%s%s");' % (n, 'stale:' if n in stale else '', n) for n in names)
        txt = '#define VP_SPARSE_FILL %s\n' % fills + codec.gen(cls, maxlen=0)
        ts.append(Task('%s.h_sparse' % cls, txt, 'h_sparse', codec.make_uninit_judge(cls),
                       desc='%s constructed in never-written heap memory, only its control-flow-steering members (%s) set '
                            'symbolically, everything else as constructed; write()' % (cls, ', '.join(names)),
                       reach=('h_sparse:end',), bounds='one object', kinds={'uninit_output', 'memory'}, opts=dict(validate=False)))
    # independence from timing: sessions whose payload is an exact multiple of the container size, every schedule with one preemption
    ts += SCH.sched_tasks(tier, ['CHECK_C04'], 'sched_exact', ('C04:',), {'schedule_dependent', 'assert', 'deadlock', 'hang'}, digest=True,
                          extra_defs='#define CONTAINER_DIVIDES_PAYLOAD 2\n')
    ts += SCH.sched_tasks(tier, ['CHECK_C04'], 'sched', ('C04:',), {'schedule_dependent', 'assert', 'deadlock', 'hang'}, digest=True)
    # independence from earlier / concurrent activity in the process: a second File being written at the same time
    ts += SCH.two_file_tasks(tier, 'det', {'assert', 'race', 'memory', 'deadlock', 'hang'}, race=True)
    # the finished file of a session must not contain bytes that come from never-written memory either (header included)
    import judge as J
    from symex import Violation

    def file_judge(ex, st, status):
        if status != 'ok':
            return
        cells = J.out(st, 'file')
        if cells is None:
            return
        bad = [i for i, c in enumerate(cells) if J.has_garbage([c])]
        if bad:
            ex.obl_failed += 1
            ex.violations.append(Violation('uninit_output', 'bytes %s of the finished file depend on never-written memory' % bad[:12],
                                           ex.model_for(st), list(st.inputs), 'judge'))
        else:
            ex.obl_concrete += 1
    for t in ts:
        if t.entry == 'h_session':
            t.judge = file_judge
            t.kinds = set(t.kinds) | {'uninit_output'}
    meta = dict(
        level='model_checking',
        explanation='Objects live in heap/stack memory whose never-written bytes are distinct unconstrained symbols '
                    '(G*); after the real write() runs, no emitted byte may mention such a symbol: the output is then '
                    'a function of the API-visible member values alone. Checked for populated objects (h_rt) and for '
                    'default-constructed objects (h_default) of every class.',
        trusted_base=CC.TRUSTED,
        bounds='as C03',
        assumptions=['independence from thread timing beyond one preemption is the C07/C15 argument (container boundaries depend only on '
                     'byte counts)'], post=SCH.digest_post)
    return ts, meta
