"""C14 Output bytes are a deterministic function of objects and configuration."""
import codec_common as CC


def tasks(tier, seed):
    ts = CC.rt_tasks(tier, kinds={'uninit_output'}) + CC.rt_tasks(tier, kinds={'uninit_output'}, entry='h_default')
    meta = dict(
        level='model_checking',
        explanation='Objects live in heap/stack memory whose never-written bytes are distinct unconstrained symbols '
                    '(G*); after the real write() runs, no emitted byte may mention such a symbol: the output is then '
                    'a function of the API-visible member values alone. Checked for populated objects (h_rt) and for '
                    'default-constructed objects (h_default) of every class.',
        trusted_base=CC.TRUSTED,
        bounds='as C03',
        assumptions=['independence from thread timing is the C07/C15 argument (container boundaries depend only on '
                     'byte counts)'])
    return ts, meta
