"""C08 A file cut off at any byte reads as an unmodified prefix of its objects."""
import os

import codec_common as CC
import session_common as SC
from framework import Task

HERE = os.path.dirname(os.path.abspath(__file__))


def tasks(tier, seed):
    src = open(os.path.join(HERE, 'harness', 'c08_trunc.cpp')).read()
    cfgs = [(0, 40, 0), (6, 64, 1)] if tier == 'quick' else [(0, 40, 0), (6, 64, 1), (0, 16, 1), (1, 200, 0), (9, 40, 0), (6, 7, 0)]
    step = 40 if tier == 'quick' else 24
    ts = []
    for lvl, cs, hi in cfgs:
        for lo in range(0, 800, step):
            txt = '#define VP_FS_CAP 4096\n#define CFG_LEVEL %d\n#define CFG_CONTAINER %d\n#define HEADER_INITIAL %d\n#define T_LO %d\n' \
                  '#define T_HI %d\n' % (lvl, cs, hi, lo, lo + step) + src
            ts.append(Task('trunc.l%d_c%d_h%d.t%d' % (lvl, cs, hi, lo), txt, 'h_trunc', None,
                           opts=dict(validate=False, extra=['zlib_stub.cpp'], limit_is_hang=True, max_wall=1500, max_steps=6000000, enum_limit=400),
                           desc='file of 4 objects (symbolic fields) written by the library (level %d, container size %d, %s header), '
                                'cut off at every offset in [%d, %d), then opened, read to the end and closed' % (
                                    lvl, cs, 'initial all-zero statistics' if hi else 'final', lo, lo + step),
                           reach=('h_trunc:end',), bounds='4 objects; every truncation offset',
                           kinds={'assert', 'memory', 'uncaught_exception', 'terminate', 'deadlock', 'hang', 'limit', 'leak'}))
    for lvl, cs, hi in (cfgs[:1] if tier == 'quick' else cfgs[:3]):
        for lo in range(0, 800, step * 2):
            txt = '#define SCALED_STREAM 1\n#define VP_FS_CAP 4096\n#define CFG_LEVEL %d\n#define CFG_CONTAINER %d\n#define HEADER_INITIAL %d\n#define T_LO %d\n' \
                  '#define T_HI %d\n' % (lvl, cs, hi, lo, lo + step * 2) + src
            ts.append(Task('trunc_scaled.l%d_c%d_h%d.t%d' % (lvl, cs, hi, lo), txt, 'h_trunc', None,
                           opts=dict(validate=False, extra=['zlib_stub.cpp'], limit_is_hang=True, max_wall=1500, max_steps=6000000, enum_limit=400),
                           desc='the same with the stream buffer scaled down to one container (the inflater is behind the decoder when the '
                                'decoder reaches the damaged object), cut at every offset in [%d, %d)' % (lo, lo + step * 2),
                           reach=('h_trunc:end',), bounds='4 objects; every truncation offset',
                           kinds={'assert', 'memory', 'uncaught_exception', 'terminate', 'deadlock', 'hang', 'limit', 'leak'}))
    meta = dict(
        level='model_checking',
        explanation='A valid file is produced by the real writer inside the symbolic run; for EVERY truncation offset (complete '
                    'enumeration, one path each) the in-memory file is cut and the real read pipeline runs: open either throws the '
                    'library exception or succeeds, the delivered objects must be exactly those wholly contained in completely '
                    'stored containers (expectation computed by an independent container walk), with encodings equal for all field '
                    'values, then end is reported and close() returns (deadlock / step-budget detection). Monotonicity in the '
                    'offset follows from the characterisation.',
        trusted_base=CC.TRUSTED + SC.SESSION_TRUST,
        bounds='4 objects; quick: 2 configurations, thorough: 6; all truncation offsets 0..size',
        assumptions=['for deflate containers the zlib contract model rejects truncated streams (Z_BUF_ERROR/Z_DATA_ERROR), as zlib does'],
        validate=0)
    return ts, meta
