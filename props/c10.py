"""C10 Corrupt or hostile input never causes a crash, undefined behaviour or a hang."""
import os

import build
import codec
import codec_common as CC
from framework import Task

HERE = os.path.dirname(os.path.abspath(__file__))
# decoders with three or more independent SSO strings: the per-string case split (16 in-place lengths x heap
# classes) exceeds the per-harness budget; they are covered by the file-level harness and by C02/C01 only
HEAVY = ('GlobalMarker', 'TestStructure', 'DiagRequestInterpretation', 'AttributeEvent')


def tasks(tier, seed):
    ts = []
    small = 2 if tier == 'quick' else 4
    for cls in codec.classes():
        if cls in HEAVY:
            continue
        txt = ('#define VP_DEC_CUTS 2\n' if tier == 'quick' else '#define VP_DEC_ALL 1\n') + codec.gen(cls, maxlen=4)
        ts.append(Task('%s.h_dec' % cls, txt, 'h_dec', None,
                       opts=dict(alloc_policy=(small, 1 << 28), max_paths=200000, enum_limit=6000,
                                 max_wall=240 if tier == 'quick' else 1500, validate=False),
                       desc='%s::read on a stream whose bytes after the LOBJ signature are all symbolic; stream size = '
                            'fixed part + 8 (quick: also cut by 5; thorough: every stream size 0..full); allocation: symbolic sizes split into <= %d (all '
                            'values), larger-but-materialisable (one representative), > 256 MiB (bad_alloc)' % (cls, small),
                       reach=('h_dec:end',), bounds='stream <= fixed part + 8 bytes',
                       kinds={'memory', 'assert', 'uncaught_exception', 'terminate', 'trap', 'unreachable', 'deadlock'}))
    # the same decoders on a long stream (fixed part + 300 symbolic bytes): a length field of 8 or 16 bits can ask for more
    # than the few bytes of the short stream, and only then does a copy run past a buffer that was sized differently
    for cls in codec.classes():
        if cls in HEAVY:
            continue
        txt = '#define VP_DEC_CUTS 1\n#define VP_DEC_EXTRA 300\n' + codec.gen(cls, maxlen=4)
        ts.append(Task('%s.h_dec_long' % cls, txt, 'h_dec', None,
                       opts=dict(alloc_policy=(small, 1 << 28), max_paths=200000, enum_limit=6000,
                                 max_wall=240 if tier == 'quick' else 1500, validate=False),
                       desc='%s::read on a stream of fixed part + 300 symbolic bytes' % cls,
                       reach=('h_dec:end',), bounds='stream = fixed part + 300 bytes',
                       kinds={'memory', 'assert', 'uncaught_exception', 'terminate', 'trap', 'unreachable', 'deadlock'}))
    zm = build.support_module('zlib_stub.cpp')
    txt = open(os.path.join(HERE, 'harness', 'c10_file_hostile.cpp')).read()
    ts.append(Task('file.hostile_header', txt, 'h_hostile', None,
                   opts=dict(alloc_policy=(64, 1 << 28), enum_limit=400, max_steps=600000, extra=['zlib_stub.cpp'], limit_is_hang=True,
                             validate=False, max_wall=600),
                   desc='file of three CanMessage objects written by the library (level 0); the second object header '
                        'gets a symbolic 32-bit objectSize, a symbolic 16-bit headerSize and a type code from {CAN_MESSAGE, CAN_MESSAGE2, APP_TEXT, '
                        'unknown 200, 0, LOG_CONTAINER}; whole read session (3 threads, cooperative schedule): open, '
                        'read until null (<= 50 objects), close; no deadlock, no livelock, no memory error',
                   reach=('end',), bounds='one corrupted object header; all 2^32 sizes x 6 type codes',
                   kinds={'memory', 'assert', 'uncaught_exception', 'terminate', 'deadlock', 'hang', 'limit', 'trap', 'leak'}))
    csrc = open(os.path.join(HERE, 'harness', 'c10_container_hostile.cpp')).read()
    variants = [(0, 0, 1), (0, 0, 2), (0, 0, 4), (6, 0, 1), (6, 0, 4), (0, 1, 0), (0, 0, 9)]
    if tier != 'quick':
        variants += [(0, 0, 7), (6, 0, 7), (6, 0, 2)]
    names = {1: 'objectSize', 2: 'compressionMethod', 4: 'uncompressedFileSize', 7: 'all_three', 0: '', 9: 'objectSize_and_objectType'}
    for lvl, mode, fields in variants:
        ts.append(Task('file.hostile_%s_l%d' % ('container_' + names[fields] if mode == 0 else 'object_multi', lvl),
                       '#define VP_FS_CAP 4096\n#define CFG_LEVEL %d\n#define MODE %d\n#define FIELDS %d\n' % (lvl, mode, fields or 7) + csrc,
                       'h_container', None,
                       opts=dict(alloc_policy=(8, 1 << 28), enum_limit=600, max_steps=2000000, extra=['zlib_stub.cpp'],
                                 limit_is_hang=True, validate=False, max_wall=900),
                       desc=('file of four CanMessage objects in 40-byte containers (level %d); in the second container header the '
                             'field(s) %s are symbolic (full width)' % (lvl, names[fields])) if mode == 0 else
                            ('same file (level 0), stream buffer scaled down to one container; the header of the second object, which is '
                             'followed by further containers, gets a symbolic 32-bit objectSize and a type code from {CAN_MESSAGE, '
                             'CAN_MESSAGE2, APP_TEXT, unknown 200, 0}'),
                       reach=('h_container:end',), bounds='one corrupted header; all values of the symbolic fields',
                       kinds={'memory', 'assert', 'uncaught_exception', 'terminate', 'deadlock', 'hang', 'limit', 'trap', 'leak'}))
    meta = dict(
        level='model_checking',
        explanation='(1) Memory safety of every decoder: the real <Type>::read runs on symbolic bytes; every load/store is '
                    'bounds- and lifetime-checked by llsym, symbolic copy lengths are checked against both objects with '
                    'z3 before use, only library exceptions / bad_alloc / length_error may leave read(). (2) Whole-file '
                    'hostile header: the real three-thread read pipeline (stub fstream + in-memory file, cooperative '
                    'scheduler in llsym) must terminate for every declared object size: "all threads blocked" is '
                    'reported as deadlock, exceeding the step budget as hang.',
        trusted_base=CC.TRUSTED + ['support/stubs/fstream: in-memory std::fstream model', 'support/zlib_stub.cpp: zlib contract model',
                                   'engine/models.py: std::thread / mutex / condition_variable as cooperative threads'],
        bounds='decoder harness: stream = fixed part + 8 bytes; quick: stream sizes {full, -5}; allocation classes as '
               'described; file harness: one corrupted header',
        assumptions=['decoders %s are excluded from the per-decoder harness (budget); stated, not claimed' % ', '.join(HEAVY),
                     'allocation sizes between the small bound and 256 MiB are represented by one witness value',
                     'real zlib on hostile deflate data is outside the claim (zlib\'s own robustness)'],
        validate=0)
    return ts, meta
