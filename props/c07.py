"""C07 Results are independent of thread interleaving."""
import codec_common as CC
import sched_common as SCH
import session_common as SC


def tasks(tier, seed):
    kinds = {'assert', 'memory', 'uncaught_exception', 'terminate', 'deadlock', 'leak', 'limit', 'schedule_dependent'}
    ts = SCH.sched_tasks(tier, ['CHECK_C01', 'CHECK_C04', 'CHECK_C05'], 'sched', ('C01:', 'C04:', 'C05:'), kinds, digest=True)
    # object bytes an exact multiple of the container size: the point where an extra empty container could depend on timing
    ts += SCH.sched_tasks(tier, ['CHECK_C01', 'CHECK_C04', 'CHECK_C05'], 'sched_exact', ('C01:', 'C04:', 'C05:'), kinds, digest=True,
                          extra_defs='#define CONTAINER_DIVIDES_PAYLOAD 2\n')

    # back-pressure thresholds scaled down (2 queued objects, one container + 80 bytes): the workers wait for each other at
    # container boundaries inside fields, which the 128 KiB default never produces on a small file
    ts += SCH.sched_tasks(tier, ['CHECK_C01', 'CHECK_C04', 'CHECK_C05'], 'sched_scaled', ('C01:', 'C04:', 'C05:'), kinds, digest=True,
                          extra_defs='#define SCALE_THRESHOLDS 1\n', nobj=3)
    # stream buffer of 16 bytes and tiny containers, cooperative schedule: the decoder catches up with the inflater at
    # container boundaries inside fields (every alignment of boundary and field end occurs)
    import session_common as SC2
    for cs in ((5, 7, 11, 13) if tier == 'quick' else (3, 5, 6, 7, 9, 11, 13, 17, 23)):
        for t in SC2.session_tasks('quick', ['CHECK_C01', 'CHECK_C04', 'CHECK_C05'], 'coop_c%d' % cs, ('C01:', 'C04:', 'C05:'), nobj=6, scaled=True)[:1]:
            t.text = t.text.replace('#define CFG_CONTAINER 40', '#define CFG_CONTAINER %d\n#define SCALED_BUFFER %d' % (cs, max(16, cs)))
            t.tid = 'coop_scaled.c%d' % cs
            t.desc = 'cooperative schedule, 6 objects, container size %d, stream buffer 16 bytes, queue capacity 2: ' % cs + t.desc
            t.opts = dict(t.opts, digest_tags=())
            ts.append(t)

    # a valid file this library did not write: no padding behind the last object (decoder's skip vs. end-of-stream declaration)
    ts += SCH.foreign_tasks(tier, 'sched', kinds | {'hang'})

    # a file with an unknown object that spans two containers: the decoder may reach the skip before or after the inflater
    # has delivered the second container
    ts += SCH.unknown_tasks(tier, 'sched', kinds | {'hang'})

    post = SCH.digest_post
    meta = dict(
        level='model_checking',
        explanation='Every schedule with at most one preemption (at each mutex release / thread start, in favour of each other '
                    'runnable thread) of a complete write session followed by a read session is executed symbolically; on each '
                    'schedule the file bytes must satisfy the schedule-free expectation (independent container walk: payload == '
                    'concatenated encodings, header statistics exact) and read() must deliver exactly the written objects in '
                    'order, each once, then null/eof - for all field values (z3 / term identity). Together with the monitor '
                    'reduction (every stage method holds its mutex: C11; stream and queue are sequential FIFOs: C15, C16) this '
                    'gives interleaving independence.',
        trusted_base=CC.TRUSTED + SC.SESSION_TRUST,
        bounds='2 objects; preemption bound 1 (complete); quick 1 configuration, thorough 3 (+ early close)',
        assumptions=['schedules with 2 or more preemptions are covered only through the monitor reduction argument'],
        post=post, validate=0)
    return ts, meta
