"""C07 Results are independent of thread interleaving."""
import codec_common as CC
import sched_common as SCH
import session_common as SC


def tasks(tier, seed):
    kinds = {'assert', 'memory', 'uncaught_exception', 'terminate', 'deadlock', 'leak', 'limit', 'schedule_dependent'}
    ts = SCH.sched_tasks(tier, ['CHECK_C01', 'CHECK_C04', 'CHECK_C05'], 'sched', ('C01:', 'C04:', 'C05:'), kinds, digest=True)
    # object bytes an exact multiple of the container size: the point where an extra empty container could depend on timing
    ts += SCH.sched_tasks(tier, ['CHECK_C01', 'CHECK_C04', 'CHECK_C05'], 'sched_exact', ('C01:', 'C04:', 'C05:'), kinds, digest=True,
                          extra_defs='#define CONTAINER_DIVIDES_PAYLOAD 2\n')

    def post(res):
        # the finished file must be the same term-for-term under every explored schedule of one configuration
        groups = {}
        for tid, r in res.items():
            cfg = tid.rsplit('.sync', 1)[0]
            for d, sched in r.get('out_digests', []):
                if 'file' in d:
                    groups.setdefault(cfg, []).append((d['file'], tid, sched))
        out = []
        for cfg, lst in groups.items():
            ref = lst[0][0]
            for dg, tid, sched in lst:
                if dg != ref:
                    out.append((tid, dict(kind='schedule_dependent', msg='the bytes of the written file differ between two schedules of the same session (%s)' % cfg,
                                          where='post', extra=dict(schedule=sched), inputs=[])))
                    break
        return out
    meta = dict(
        level='model_checking',
        explanation='Every schedule with at most one preemption (at each mutex release / thread start, in favour of each other '
                    'runnable thread) of a complete write session followed by a read session is executed symbolically; on each '
                    'schedule the file bytes must satisfy the schedule-free expectation (independent container walk: payload == '
                    'concatenated encodings, header statistics exact) and read() must deliver exactly the written objects in '
                    'order, each once, then null/eof - for all field values (z3 / term identity). Together with the monitor '
                    'reduction (every stage method holds its mutex: C11; stream and queue are sequential FIFOs: C15, C16) this '
                    'gives interleaving independence.',
        trusted_base=CC.TRUSTED + SC.SESSION_TRUST,
        bounds='2 objects; preemption bound 1 (complete); quick 1 configuration, thorough 3 (+ early close)',
        assumptions=['schedules with 2 or more preemptions are covered only through the monitor reduction argument'],
        post=post, validate=0)
    return ts, meta
