"""C07 Results are independent of thread interleaving."""
import codec_common as CC
import sched_common as SCH
import session_common as SC


def tasks(tier, seed):
    ts = SCH.sched_tasks(tier, ['CHECK_C01', 'CHECK_C04', 'CHECK_C05'], 'sched', ('C01:', 'C04:', 'C05:'),
                         {'assert', 'memory', 'uncaught_exception', 'terminate', 'deadlock', 'leak', 'limit'})
    meta = dict(
        level='model_checking',
        explanation='Every schedule with at most one preemption (at each mutex release / thread start, in favour of each other '
                    'runnable thread) of a complete write session followed by a read session is executed symbolically; on each '
                    'schedule the file bytes must satisfy the schedule-free expectation (independent container walk: payload == '
                    'concatenated encodings, header statistics exact) and read() must deliver exactly the written objects in '
                    'order, each once, then null/eof - for all field values (z3 / term identity). Together with the monitor '
                    'reduction (every stage method holds its mutex: C11; stream and queue are sequential FIFOs: C15, C16) this '
                    'gives interleaving independence.',
        trusted_base=CC.TRUSTED + SC.SESSION_TRUST,
        bounds='2 objects; preemption bound 1 (complete); quick 1 configuration, thorough 3 (+ early close)',
        assumptions=['schedules with 2 or more preemptions are covered only through the monitor reduction argument'],
        validate=0)
    return ts, meta
