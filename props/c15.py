"""C15 The in-memory stream is a byte FIFO with iostream-like state for any chunking."""
import os

import codec_common as CC
from framework import Task

HERE = os.path.dirname(os.path.abspath(__file__))
OPS = ['writeBytes(n)', 'writeContainer(k)', 'read(n)', 'seekg(off)', 'nextLogContainer', 'dropOldData', 'setFileSize',
       'setDefaultLogContainerSize', 'setBufferSize']


def tasks(tier, seed):
    steps = 3 if tier == 'quick' else 4
    src = open(os.path.join(HERE, 'harness', 'c15_stream.cpp')).read()
    ts = []
    # quick: one task per first operation; thorough: one per (container size, first, second operation) - 243 tasks of
    # about 13 000 paths each, which keeps every worker's memory small and all cores busy
    combos = [(None, f, None) for f in range(9)] if tier == 'quick' else [(c, f, g) for c in (1, 2, 3) for f in range(9) for g in range(9)]
    for c0, first, second in combos:
        txt = '#define STEPS %d\n#define FIRST_OP %d\n' % (steps, first) + src
        tid = 'stream.first_%s' % OPS[first].split('(')[0]
        what = 'first = %s' % OPS[first]
        csz = 'container size 1..3'
        if second is not None:
            txt = '#define CSIZE0 %d\n#define SECOND_OP %d\n' % (c0, second) + txt
            tid = 'stream.c%d.%s.%s' % (c0, OPS[first].split('(')[0], OPS[second].split('(')[0])
            what = 'first = %s, second = %s' % (OPS[first], OPS[second])
            csz = 'initial container size %d' % c0
        ts.append(Task(tid, txt, 'h_stream', None,
                       opts=dict(max_paths=400000, max_wall=900 if tier == 'quick' else 3400, validate=False,
                                 max_steps=3000000),
                       desc='UncompressedFile, %s, %d operations (%s) with symbolic data bytes, '
                            'chunk sizes 0..3 so that operations straddle container boundaries; every observer compared '
                            'with a flat byte-queue model; final drain checks FIFO order' % (csz, steps, what),
                       reach=('h_stream:end',), bounds='%d operations, chunks <= 3 bytes, containers 1..3 bytes' % steps,
                       kinds={'assert', 'memory', 'leak', 'uncaught_exception', 'terminate', 'deadlock'}))
    meta = dict(
        level='model_checking',
        explanation='The real UncompressedFile methods (with the real libstdc++ std::list / shared_ptr / vector header code) run '
                    'symbolically; data bytes are symbolic, structural choices (operation, chunk size, container size) are '
                    'enumerated completely; z3 decides equality of every byte read with the reference byte queue and of '
                    'gcount/tellg/tellp/good/eof/fileSize; would-block verdicts come from the real wait predicates (probe mode); '
                    'every operation that makes a waiter\'s predicate true must notify its condition variable (no lost wake-up).',
        trusted_base=CC.TRUSTED + ['engine/models.py: mutex / condition_variable (probe mode), std::list node hooks'],
        bounds='histories of length 3 (quick) / 4 (thorough) from the initial state; container sizes 1..3; chunks <= 3 bytes',
        assumptions=['seeking back into data already released by dropOldData is outside the claim',
                     'histories longer than the bound are outside the claim'],
        validate=0)
    return ts, meta
