"""C15 The in-memory stream is a byte FIFO with iostream-like state for any chunking."""
import os

import codec_common as CC
from framework import Task

HERE = os.path.dirname(os.path.abspath(__file__))
OPS = ['writeBytes(n)', 'writeContainer(k)', 'read(n)', 'seekg(off)', 'nextLogContainer', 'dropOldData', 'setFileSize',
       'setDefaultLogContainerSize', 'setBufferSize']


def tasks(tier, seed):
    steps = 3 if tier == 'quick' else 4
    src = open(os.path.join(HERE, 'harness', 'c15_stream.cpp')).read()
    ts = []
    for first in range(9):
        txt = '#define STEPS %d\n#define FIRST_OP %d\n' % (steps, first) + src
        ts.append(Task('stream.first_%s' % OPS[first].split('(')[0], txt, 'h_stream', None,
                       opts=dict(max_paths=400000, max_wall=900 if tier == 'quick' else 3400, validate=False,
                                 max_steps=3000000),
                       desc='UncompressedFile, container size 1..3, %d operations (first = %s) with symbolic data bytes, '
                            'chunk sizes 0..3 so that operations straddle container boundaries; every observer compared '
                            'with a flat byte-queue model; final drain checks FIFO order' % (steps, OPS[first]),
                       reach=('h_stream:end',), bounds='%d operations, chunks <= 3 bytes, containers 1..3 bytes' % steps,
                       kinds={'assert', 'memory', 'leak', 'uncaught_exception', 'terminate', 'deadlock'}))
    meta = dict(
        level='model_checking',
        explanation='The real UncompressedFile methods (with the real libstdc++ std::list / shared_ptr / vector header code) run '
                    'symbolically; data bytes are symbolic, structural choices (operation, chunk size, container size) are '
                    'enumerated completely; z3 decides equality of every byte read with the reference byte queue and of '
                    'gcount/tellg/tellp/good/eof/fileSize; would-block verdicts come from the real wait predicates (probe mode); '
                    'every operation that makes a waiter\'s predicate true must notify its condition variable (no lost wake-up).',
        trusted_base=CC.TRUSTED + ['engine/models.py: mutex / condition_variable (probe mode), std::list node hooks'],
        bounds='histories of length 3 (quick) / 4 (thorough) from the initial state; container sizes 1..3; chunks <= 3 bytes',
        assumptions=['seeking back into data already released by dropOldData is outside the claim',
                     'histories longer than the bound are outside the claim'],
        validate=0)
    return ts, meta
