"""C02 Objects from Vector-produced logs survive decode-then-encode byte for byte."""
import os

import blfwalk
import codec
import codec_common as CC
import judge as J
import reflect
import expr as X
from expr import E
from framework import Task
from symex import Violation
import symex


def harness(cls, img, osz):
    n = len(img)
    L = ['#include <vp_harness.h>', '#include <Vector/BLF/%s.h>' % cls, 'using namespace Vector::BLF;',
         'typedef %s T;' % cls,
         'static const unsigned char IMG0[%d] = {%s};' % (n, ','.join(str(b) for b in img)),
         'static unsigned char in_[%d], out_[%d];' % (n + 8, n + 72),
         'extern "C" void h_c02() {',
         '    memcpy(in_, IMG0, %d);' % n,
         '    vp_bytes(in_ + 16, %d, "img");' % (osz - 16),
         '    MemFile mf(in_, %d, %d);' % (n, n),
         '    T t;',
         '    vp_watch(in_, %d, "in");' % n,
         '    t.read(mf);',
         '    vp_concolic_stop();',
         ] + ['    vp_exp(t.%s, "s:%s");' % (lf.path, lf.path) for lf in codec.leaves(cls) if lf.kind in ('int', 'double', 'array')] + [
         '    { static unsigned char o_[%d]; memcpy(o_, IMG0, %d); MemFile m0(o_, %d, %d); T t0; t0.read(m0);' % (n + 8, n, n, n),
         ] + ['      vp_assume(t.%s == t0.%s);   /* same shape: length fields as in the original */' % (f, f)
              for f in sorted(codec.length_fields(cls))] + [
         '    }',
         '    vp_note("g", mf.g); vp_note("good", mf.good());',
         '    MemFile mo(out_, sizeof out_);',
         '    t.write(mo);',
         '    vp_note("p", mo.p); vp_note("overflow", mo.overflow);',
         '    vp_out(in_, %d, "in"); vp_out(out_, mo.p, "out");' % n,
         '    vp_reach("h_c02:end");',
         '}']
    return '\n'.join(L) + '\n'


# fields the encoder recomputes by design (compared against the recomputed value, i.e. exempt for derived
# images; the original image must still match them): Ethernet*::structLength = first field after ObjectHeader
RECOMPUTED = {c: [(32, 2)] for c in ('EthernetErrorEx', 'EthernetErrorForwarded', 'EthernetFrameEx',
                                      'EthernetFrameForwarded', 'EthernetRxError')}


def flip_content_branches(ex, st, judge2):
    """Generational search, one level deep, restricted to branches on CONTENT bytes: the concolic run follows the
    original image's decode path, so a decoder that (wrongly) branches on the value of a payload byte - a string cut at
    a NUL, a byte compared with a magic value - would silently narrow the set of derived images that is examined.
    Every path constraint whose variables are all bytes that ended up in containers (none of them in a scalar
    member: those are the length / version / variant selectors that define the shape) is negated, z3 produces a derived
    image that takes the other side, and that image is decoded / re-encoded / judged like the original."""
    flips = st.flags.get('cflips') or []
    if not flips:
        return
    scalar = set()
    for tag, cells in st.outs:
        if tag.startswith('s:'):
            scalar |= {v.a[0] for v in J.cells_vars(cells)}
    done = 0
    seen = set()
    for idx, neg in flips:
        if type(neg) is not E:
            continue
        vs = {v.a[0] for v in X.free_vars(neg)}
        if not vs or not all(v.startswith('img') for v in vs):
            continue
        # a branch on a scalar member may be a shape selector (version, variant, length) or a plain value test (a flag that
        # switches a conversion on): the other side is examined as well, but only counts if the derived image still has
        # the original's layout - the decoder consumes exactly the image, reads exactly the same bytes, length fields unchanged
        on_scalar = bool(vs & scalar)
        if neg in seen:
            continue
        seen.add(neg)
        ok, m = ex.solver.check(st.pc[:idx], (neg,))
        if not ok:
            ex.obl_solver += 1
            continue
        if done >= 48:
            break
        done += 1
        tape = [(m or {}).get(nm, (st.model or {}).get(nm, 0)) for nm, w, k in st.inputs]
        ex2 = symex.Executor(ex.prog, max_steps=ex.max_steps, max_paths=ex.max_paths, enum_limit=ex.enum_limit)
        ex2.solver = ex.solver
        ex2.concolic_tape = tape
        ex2.on_path_end = judge2[1] if on_scalar else judge2[0]
        ex2.hooks = ex.hooks
        if on_scalar:
            ex2.max_steps = min(ex2.max_steps, 200000)
            ex2.max_alloc = 1 << 20       # a flipped length asks for an absurd buffer: not a derived image, do not materialise it
        try:
            ex2.run(ex.entry_name)
        except symex.Inconclusive as e:
            if not on_scalar:
                ex.results.append(symex.PathResult('limit', 'flipped content branch: %s' % e, st))
            continue
        ex.flip_paths = getattr(ex, 'flip_paths', 0) + len(ex2.results)
        ex.obl_solver += ex2.obl_solver
        ex.obl_concrete += ex2.obl_concrete
        ex.obl_failed += ex2.obl_failed
        for v in ex2.violations:
            if on_scalar and v.kind != 'reencode':
                continue            # the other side of a selector: a different (possibly malformed) shape, C10's subject
            v.msg += ' [derived image taking the other side of a branch on %s bytes %s]' % ('field' if on_scalar else 'content', sorted(vs)[:3])
            ex.violations.append(v)
        for k2, c2 in ex2.reached.items():
            ex.reached[k2] = ex.reached.get(k2, 0) + c2
        ex.funcs_run |= ex2.funcs_run
        for r in ex2.results:
            if r.status not in ('ok', 'assume') and not on_scalar:
                ex.results.append(r)


def make_judge(cls, n, osz, img, flip=True, same_layout_only=False, orig_reads=None):
    def judge(ex, st, status):
        if status != 'ok':
            return
        if flip:
            flip_content_branches(ex, st, (make_judge(cls, n, osz, img, flip=False),
                                           make_judge(cls, n, osz, img, flip=False, same_layout_only=True,
                                                      orig_reads=st.flags.get('reads:in'))))
        g = J.note(st, 'g')
        p = J.note(st, 'p')
        good = J.note(st, 'good')

        def viol(msg, m=None):
            ex.obl_failed += 1
            ex.violations.append(Violation('reencode', msg, m if m is not None else ex.model_for(st),
                                           list(st.inputs), 'judge'))
        g, p, good = st.simp(g), st.simp(p), st.simp(good)
        ok, m = J.can_be(ex, st, X.lor(X.ne(g, n, 64), X.eq(good, 0, 64)))
        if same_layout_only and (ok or st.flags.get('reads:in') != orig_reads):
            # the flipped branch was a shape selector (the decoder consumes another number of bytes or looks at other
            # bytes - another variant / version): a different layout, not a derived image of this one
            return
        if ok:
            viol('%s: decoder consumed %s of the %d image bytes (good=%s)' % (
                cls, X.evaluate(g, m or {}), n, X.evaluate(good, m or {})), m)
            return
        ok, m = J.can_be(ex, st, X.ne(p, n, 64))
        if ok:
            viol('%s: re-encoding gives %s bytes, image has %d (objectSize %d)' % (cls, X.evaluate(p, m or {}), n, osz), m)
            return
        a = list(J.out(st, 'in'))
        b = list(J.out(st, 'out'))
        # image bytes the decoder never looks at (skipped union slack, padding) are not field values: the encoder must
        # reproduce the ORIGINAL there
        rd = st.flags.get('reads:in')
        if rd is not None:
            for i in range(16, osz):
                if i not in rd:
                    a[i] = img[i]
        # objectSize / headerSize are recomputed by design; when the original declares a size that is not the extent of
        # its own data (some Vector images do), the recomputed value is what has to be there
        declared = int.from_bytes(bytes(img[8:12]), 'little')
        if declared + (n - declared if 0 <= n - declared < 4 else 0) != n:
            for i in (8, 9, 10, 11):
                a[i] = b[i]
        for off, ln in RECOMPUTED.get(cls, ()):
            for i in range(off, off + ln):
                # the recomputed value must reproduce the ORIGINAL image's bytes
                yv = J.cell_expr(b[i])
                ok, m0 = J.can_be(ex, st, X.land(X.ne(yv, img[i], 8), X.eq(J.cell_expr(a[i]), img[i], 8))) \
                    if type(yv) is E else ((yv != img[i]), None)
                if ok:
                    viol('%s: recomputed field byte %d does not reproduce the original image' % (cls, i), m0)
                a[i] = b[i]
        d, m = J.differs(ex, st, a, b)
        if d:
            bad = []
            for i, (x, y) in enumerate(zip(a, b)):
                dd = J.diff_expr([x], [y])
                if type(dd) is E:
                    dd = X.evaluate(dd, m or {})
                if dd:
                    bad.append(i)
            viol('%s: re-encoded bytes differ from the image at offsets %s' % (cls, bad[:10]), m)
    return judge


def tasks(tier, seed):
    r = reflect.reflect()
    code2cls = {v: c for c, n, v in r['table']}
    sv = blfwalk.survey()
    seen = set()
    ts = []
    idx = 0
    for fn, ot, osz, img in sv['images']:
        idx += 1
        cls = code2cls.get(ot)
        if cls is None or cls in ('LogContainer',):
            continue
        if tier == 'quick' and ot in seen:
            continue
        seen.add(ot)
        if osz < 16 or osz > len(img):
            continue
        tape = list(img[16:osz])
        ts.append(Task('%s@%s#%d' % (cls, fn, idx), harness(cls, img, osz), 'h_c02', make_judge(cls, len(img), osz, list(img)),
                       opts=dict(concolic_tape=tape, validate=False, enum_limit=300),
                       desc='%s image (%d bytes) from %s: base header concrete, all %d bytes up to objectSize symbolic, '
                            'constrained only to decode along the same path as the original (same lengths, versions, '
                            'variants); decode -> encode must reproduce every byte' % (cls, len(img), fn, osz - 16),
                       reach=('h_c02:end',), bounds='image length %d' % len(img),
                       kinds={'reencode', 'memory', 'uncaught_exception', 'stale_dependence'}))
    meta = dict(
        level='model_checking',
        explanation='For each object image taken from the 170 Vector-produced reference logs by an independent walker '
                    '(engine/blfwalk.py), the real <Type>::read is executed on an image whose bytes after the 16-byte '
                    'base header are ALL symbolic at once, following the decode path of the original image (the path '
                    'condition pins exactly the shape: lengths, version and variant selectors); the real write() then '
                    'runs on the decoded object and z3 decides out == in for every byte. This subsumes every '
                    'single-byte / aligned-group substitution that keeps the shape.',
        trusted_base=CC.TRUSTED + ['engine/blfwalk.py extracts the images (struct + zlib only)'],
        bounds='quick: one image per object type (114); thorough: all 512 images',
        assumptions=['alignment padding bytes after objectSize are kept as in the original image',
                     'the lobj/ raw samples are covered when they appear in the reference logs'],
        validate=0)
    return ts, meta
