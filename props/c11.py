"""C11 No data races; an object handed over is never touched by the other side again."""
import codec_common as CC
import sched_common as SCH
import session_common as SC


def tasks(tier, seed):
    ts = SCH.sched_tasks(tier, [], 'race', None, {'race', 'memory', 'uncaught_exception', 'terminate', 'deadlock', 'leak'},
                         race=True, in_cs=True)
    # early close while the workers are busy (abort paths)
    ts += SCH.sched_tasks(tier, [], 'race_close', None, {'race', 'memory', 'uncaught_exception', 'terminate', 'deadlock', 'hang', 'leak'},
                          race=True, in_cs=True, extra_defs='#undef EARLY_CLOSE_AFTER\n#define EARLY_CLOSE_AFTER 1\n', nobj=3)
    # the application polls good() / eof() after every write() while the workers run
    ts += SCH.sched_tasks(tier, [], 'race_poll', None, {'race', 'memory', 'uncaught_exception', 'terminate', 'deadlock', 'hang', 'leak'},
                          race=True, in_cs=True, child_first=True, extra_defs='#define POLL_STATE 1\n', nobj=3)
    # the container size is changed through the public API while the write session runs (workers really park on the
    # scaled-down thresholds, so the application thread runs while the compressor is between two of its steps)
    for cf in (False, True):
        ts += SCH.sched_tasks(tier, [], 'race_grow%s' % ('_child_first' if cf else ''), None,
                              {'race', 'memory', 'uncaught_exception', 'terminate', 'deadlock', 'hang', 'leak'}, race=True, in_cs=True,
                              child_first=cf, extra_defs='#define SCALE_THRESHOLDS 1\n#define GROW_CONTAINER_DURING_WRITE 0\n'
                                         '#define SCALED_BUFFER (3 * containerSize + 80)   /* the API keeps buffer >= container size */\n', nobj=4)
    ts += SCH.two_file_tasks(tier, 'race', {'race', 'memory', 'uncaught_exception', 'terminate', 'deadlock', 'hang'}, race=True)
    meta = dict(
        level='model_checking',
        explanation='The whole write and read pipeline of the real File runs in llsym with three cooperative threads per session; '
                    'every schedule with at most one preemption at a mutex acquisition (inside the critical section), mutex release or thread start is explored (complete for '
                    'bound 1 on these sessions). (a) Hand-over: the harness consumer deletes each object immediately after '
                    'read(); any later access by a worker is a use-after-free in llsym\'s lifetime-checked memory, objects '
                    'passed to write() must be freed exactly once. (b) A vector-clock happens-before detector (mutexes, thread '
                    'create/join, atomics synchronise) checks every non-atomic access of every schedule for an unordered '
                    'conflicting access by another thread.',
        trusted_base=CC.TRUSTED + SC.SESSION_TRUST + ['engine/symex.py race_check: vector-clock happens-before detector'],
        bounds='2 objects per session; preemption bound 1; configurations: quick 1, thorough 3 (+ early close)',
        assumptions=['races that need two or more preemptions, or sessions longer than the bound, are outside the claim',
                     'condition-variable wake-ups are ordered through the mutex the waiter re-acquires'],
        validate=0)
    return ts, meta
