"""C05 File header statistics are exact and agree with the reader's running counters."""
import codec_common as CC
import session_common as SC


def tasks(tier, seed):
    ts = SC.session_tasks(tier, ['CHECK_C05'], 'c05', ('C05:',))
    ts += SC.session_tasks(tier, ['CHECK_C05'], 'c05', ('C05:',), slow=True)     # slow producer: workers wait mid-container
    ts += SC.big_session_tasks(tier, 'c05', ('C05:',))
    # header fields assigned between open() and close(); a restore point object written by the application itself
    for name, d in (('hdr_after_open', '#define HEADER_AFTER_OPEN 1\n'), ('app_restore_point', '#define APP_RESTORE_POINT 1\n')):
        for t in SC.session_tasks(tier, ['CHECK_C05'], 'c05_' + name, ('C05:',))[:1 if tier == 'quick' else 3]:
            t.text = d + t.text
            t.desc = ('header fields assigned after open(): ' if 'HEADER' in d else 'plus one RestorePointContainer written by the application: ') + t.desc
            ts.append(t)
    meta = dict(
        level='model_checking',
        explanation='After close() of a symbolically executed write session the header bytes on the in-memory disk are compared '
                    '(field offsets from the BLF header format, not from FileStatistics::write) with an independent container '
                    'walk: fileSize = size on disk, uncompressedFileSize = 144 + sum(32 + payload), objectCount = objects written, '
                    'restorePointsOffset = start of the trailing container, caller-supplied fields (symbolic) verbatim; a read '
                    'session over the same file ends with currentObjectCount / currentUncompressedFileSize equal to the header.',
        trusted_base=CC.TRUSTED + SC.SESSION_TRUST,
        bounds='4 objects; configurations as C04',
        assumptions=['the reference logs are exercised by the repository tests and by C02 at object level, not here'],
        validate=0)
    return ts, meta
