"""C06 No API call blocks forever: the three-stage pipeline cannot deadlock."""
import os

import codec_common as CC
from framework import Task

HERE = os.path.dirname(os.path.abspath(__file__))


def tasks(tier, seed):
    src = open(os.path.join(HERE, 'harness', 'c06_probe.cpp')).read()
    ts = []
    for entry, d in (('h_write_session', 'write session: queue preloaded 0..11, stream positions symbolic 64 bit, container size '
                                         'symbolic 32 bit configured through File::setDefaultLogContainerSize'),
                     ('h_read_session', 'read session: queue 0..2 objects, stream positions symbolic, decoder chunk size symbolic '
                                        '1..2^32-1')):
        ts.append(Task('probe.' + entry, src, entry, None, opts=dict(validate=False, enum_limit=400, extra=['zlib_stub.cpp']),
                       desc=d + '; the three real wait predicates are evaluated by the real methods (probe mode); z3 decides '
                                'that they cannot all be false at once; after abort() no probe blocks',
                       reach=(entry + ':end',), bounds='no bound on sizes or positions (predicates are evaluated before any container is touched)',
                       kinds={'assert', 'memory', 'uncaught_exception', 'terminate', 'deadlock'}))
    import session_common as SC
    import sched_common as SCH
    ts += SC.session_tasks(tier, [], 'session', None, early=(0, 1, 3),
                           kinds={'memory', 'uncaught_exception', 'terminate', 'deadlock', 'hang', 'limit', 'leak'})
    # the same with the back-pressure thresholds scaled down to 2 queued objects / one container + 80 bytes, 7 objects:
    # producers really wait on full queue and full stream, and close() arrives while they are parked there
    ts += SC.session_tasks(tier, [], 'session', None, early=(0, 1, 3, 5), nobj=7, scaled=True,
                           kinds={'memory', 'uncaught_exception', 'terminate', 'deadlock', 'hang', 'limit', 'leak'})
    # stream buffer exactly as large as a container - the relation the API itself sets up (128 KiB both): a single
    # write() call of the encoder that crosses a container boundary meets a full buffer
    for t0 in SC.session_tasks(tier, [], 'session_buf_eq_container', None, nobj=7, scaled=True,
                               kinds={'memory', 'uncaught_exception', 'terminate', 'deadlock', 'hang', 'limit', 'leak'}):
        t0.text = '#define SCALED_BUFFER containerSize\n' + t0.text
        t0.tid = t0.tid.replace('session_buf_eq_container_scaled', 'session_buf_eq_container')
        t0.desc = 'stream buffer size == container size: ' + t0.desc
        cs_ = int(t0.tid.split('_c')[-1].split('_')[0])
        if cs_ >= 16:                        # a buffer smaller than the largest decoder chunk (8 / 16 bytes) is the recorded chunk > buffer finding
            ts.append(t0)
    # the same relation under every schedule with one preemption, container size 13 (fields straddle container boundaries):
    # the compressor may have gone back to sleep just before the encoder's straddling write() call
    ts += SCH.sched_tasks(tier, [], 'sched_buf_eq_container', None, {'memory', 'uncaught_exception', 'terminate', 'deadlock', 'hang', 'leak'},
                          extra_defs='#define SCALE_THRESHOLDS 1\n#define SCALED_BUFFER containerSize\n', nobj=3, cfgs=[(0, 13, 0)])
    ts += SC.big_session_tasks(tier, 'session', None, kinds={'memory', 'uncaught_exception', 'terminate', 'deadlock', 'hang', 'limit', 'leak'})
    # close() in the middle of a read session while the workers are in the middle of a container: base schedule "a new
    # thread runs before its creator continues" plus one preemption (worker -> application at every synchronisation point,
    # also inside critical sections), close after 0 / 1 delivered objects
    for ec in (0, 1):
        ts += SCH.sched_tasks(tier, [], 'close%d_child_first' % ec, None,
                              {'memory', 'uncaught_exception', 'terminate', 'deadlock', 'hang', 'leak'}, in_cs=True, child_first=True,
                              extra_defs='#undef EARLY_CLOSE_AFTER\n#define EARLY_CLOSE_AFTER %d\n' % ec, nobj=3,
                              cfgs=([(0, 40, 0), (0, 7, 0)] if ec == 0 else [(0, 40, 0)]) if tier == 'quick' else None)
    # sessions without any object: open(out) / open(in) followed directly by close or destruction (C13's history harness)
    import c13
    for t in c13.tasks('quick', seed)[0]:
        if t.tid in ('hist.open3.close6', 'hist.open3.destroy7', 'hist.open2.close6'):
            t.tid = 'empty_session.' + t.tid
            t.kinds = {'deadlock', 'hang', 'uncaught_exception', 'terminate', 'memory'}
            ts.append(t)
    # lemma of the monitor reduction: no lost wake-up in the stream (every consumer operation that frees buffer space
    # notifies the waiting producer, every producer operation that makes data / the end available notifies the consumer)
    import c15
    for t in c15.tasks('quick', seed)[0]:
        if t.tid == 'stream.first_setBufferSize':
            t.tid = 'wakeup.stream'
            t.opts = dict(t.opts, msg_filter='notified')
            t.kinds = {'assert'}
            ts.append(t)
    import c16
    for t in c16.tasks(tier, seed)[0]:
        if t.tid in ('queue.first_op_0', 'queue.first_op_1'):
            t.tid = 'wakeup.' + t.tid
            t.opts = dict(t.opts, msg_filter='vp_notified')
            t.kinds = {'assert'}
            ts.append(t)
    meta = dict(
        level='model_checking',
        explanation='Monitor reduction (DESIGN.md section 3): each stage takes its mutex for the whole method body (checked by '
                    'C11), so a deadlock is a state in which every session thread sits in a predicate wait whose predicate '
                    'is false. The probe harnesses construct a real File, configure it through the public API, give the '
                    'stream and queue an ARBITRARY symbolic state and let the real methods evaluate their real predicates; '
                    'z3 proves that the three predicates cannot be false together (write session: for every container size; '
                    'read session: see known finding) and that abort() makes every predicate true. The session harnesses run '
                    'the whole pipeline with llsym\'s cooperative threads and report "all threads blocked".',
        trusted_base=CC.TRUSTED + ['engine/models.py: std::thread/mutex/condition_variable as cooperative threads, probe mode',
                                   'support/stubs/fstream, support/zlib_stub.cpp'],
        bounds='probes: unbounded sizes; sessions: 4 objects, configurations listed per harness, one cooperative schedule',
        assumptions=['spurious wake-ups, OS scheduler fairness and std::thread itself are outside the claim',
                     'the sites listed in c06_probe.cpp are all wait sites of a session (two stage classes, five waits)'],
        validate=0)
    return ts, meta
