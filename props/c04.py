"""C04 Finished files decode with an independent implementation of the container format."""
import codec_common as CC
import session_common as SC


def tasks(tier, seed):
    ts = SC.session_tasks(tier, ['CHECK_C04'], 'c04', ('C04:',))
    ts += SC.session_tasks(tier, ['CHECK_C04'], 'c04', ('C04:',), slow=True)     # slow producer: workers wait mid-container
    ts += SC.big_session_tasks(tier, 'c04', ('C04:',))
    # the last object's data ends exactly on a container boundary and only its padding follows (2 and 5 objects: the last
    # one is an AppText with objectSize % 4 != 0)
    for nobj, div in ((2, 1), (5, 2)) if tier == 'quick' else ((2, 1), (2, 2), (5, 1), (5, 2), (5, 4)):
        for t in SC.session_tasks('quick', ['CHECK_C04'], 'c04_lastpad%d_%d' % (nobj, div), ('C04:',), nobj=nobj)[:1 if tier == 'quick' else 2]:
            t.text = '#define LAST_PADDING_AT_BOUNDARY %d\n' % div + t.text
            t.desc = 'container size = (payload - padding of the last object) / %d: ' % div + t.desc
            ts.append(t)
    meta = dict(
        level='model_checking',
        explanation='The real File write session (three threads, cooperative scheduler) runs symbolically; the finished in-memory '
                    'file is then walked by an independent decoder written in the harness from the format description only: '
                    'LOGG header of 144 bytes, then nothing but LOBJ containers with headerSize 16, version 1, type 10, '
                    'objectSize = 32 + stored, method 0 / 2 as configured, uncompressed size <= configured container size, zero '
                    'alignment padding, and the concatenated inflated payload equal (z3, all field values) to the concatenation '
                    'of the encodings of the written objects.',
        trusted_base=CC.TRUSTED + SC.SESSION_TRUST,
        bounds='4 objects; configurations (level, container size, restore points): quick 3, thorough 10; one schedule',
        assumptions=['zlib itself is replaced by its contract model; real deflate output and its level class are checked only by the '
                     'native replay', 'container sizes beyond those listed are outside the bound'],
        validate=0)
    return ts, meta
