"""C17 Type codes agree between constructors, the object factory and files."""
import codec_common as CC
import reflect
from framework import Task


def factory_harness():
    r = reflect.reflect()
    L = ['#include <vp.h>', '#include <typeinfo>', '#include <Vector/BLF.h>', 'using namespace Vector::BLF;',
         'extern "C" void h_factory() {',
         '    uint32_t c = vp_u32("code");',
         '    ObjectHeaderBase * obj = File::createObject(static_cast<ObjectType>(c));',
         '    bool known = false;']
    ncodes = {}
    for cls, nm, val in r['table']:
        ncodes[cls] = ncodes.get(cls, 0) + 1
    for cls, nm, val in r['table']:
        same = 'VP_ASSERT(ot == c); ' if ncodes[cls] == 1 else ''
        L.append('    if (c == %du) { known = true; VP_ASSERT(obj != nullptr); '
                 'if (obj) { VP_ASSERT(typeid(*obj) == typeid(%s)); '
                 'uint32_t ot; memcpy(&ot, &obj->objectType, 4); %s} vp_reach("code_%d"); }' % (
                     val, cls, same, val))
    L += ['    if (!known) { VP_ASSERT(obj == nullptr); vp_reach("unknown"); }',
          '    delete obj;',
          '    vp_reach("h_factory:end");',
          '}']
    return '#include <cstring>\n' + '\n'.join(L) + '\n'


def tasks(tier, seed):
    r = reflect.reflect()
    reach = ['h_factory:end', 'unknown'] + ['code_%d' % v for _, _, v in r['table']]
    ts = [Task('factory', factory_harness(), 'h_factory', None,
               desc='File::createObject(c) for a symbolic 32-bit code c: null exactly for the codes the format leaves '
                    'unassigned, otherwise dynamic type and objectType as assigned by the File.h table',
               reach=reach, bounds='all 2^32 codes (one path per switch arm + default)',
               kinds={'assert', 'memory', 'uncaught_exception', 'terminate', 'leak'}, opts=dict(validate=False))]
    ts += CC.rt_tasks(tier, kinds={'typecode', 'uninit_member', 'uninit_output', 'roundtrip', 'memory'}, entry='h_default')
    meta = dict(
        level='model_checking',
        explanation='(1) The real File::createObject switch is executed for a symbolic 32-bit type code; llsym forks per '
                    'feasible switch arm with z3 and the assertions compare the result with the class/code table parsed '
                    'from the comments of File.h and the ObjectType enumerators (independent of the switch). (2) Every '
                    'class is default-constructed in heap memory whose unwritten bytes are unconstrained symbols: its '
                    'objectType must be one of the class\'s codes, no member value and no encoded byte may depend on '
                    'unwritten memory, and write->read gives the same code.',
        trusted_base=CC.TRUSTED,
        bounds='all 2^32 codes; one default-constructed object per class',
        assumptions=['the class <-> code table is the one in the include comments of File.h'])
    return ts, meta
