"""C17 Type codes agree between constructors, the object factory and files."""
import codec_common as CC
import reflect
from framework import Task


def factory_harness():
    r = reflect.reflect()
    L = ['#include <vp.h>', '#include <typeinfo>', '#include <Vector/BLF.h>', 'using namespace Vector::BLF;',
         'extern "C" void h_factory() {',
         '    uint32_t c = vp_u32("code");',
         '    ObjectHeaderBase * obj = File::createObject(static_cast<ObjectType>(c));',
         '    bool known = false;']
    ncodes = {}
    for cls, nm, val in r['table']:
        ncodes[cls] = ncodes.get(cls, 0) + 1
    for cls, nm, val in r['table']:
        same = 'VP_ASSERT(ot == c); ' if ncodes[cls] == 1 else ''
        L.append('    if (c == %du) { known = true; VP_ASSERT(obj != nullptr); '
                 'if (obj) { VP_ASSERT(typeid(*obj) == typeid(%s)); '
                 'uint32_t ot; memcpy(&ot, &obj->objectType, 4); %s} vp_reach("code_%d"); }' % (
                     val, cls, same, val))
    L += ['    if (!known) { VP_ASSERT(obj == nullptr); vp_reach("unknown"); }',
          '    delete obj;',
          '    vp_reach("h_factory:end");',
          '}']
    return '#include <cstring>\n' + '\n'.join(L) + '\n'


# classes whose default-constructed object does not travel through a File session as itself, with the reason
FILE_EXEMPT = {
    'EnvironmentVariable': 'recorded finding: the constructor leaves objectType UNKNOWN',
    'RestorePointContainer': 'type 115 is the format-internal restore point; File treats it specially',
    'LogContainer': 'the container itself',
}


def file_types_harness(classes):
    L = ['#include <vp_harness.h>', '#include <vp_fs.h>', '#include <typeinfo>', '#include <Vector/BLF.h>', 'using namespace Vector::BLF;',
         'extern "C" void h_file_types() {',
         '    uint32_t codes[%d]; int n = 0;' % len(classes),
         '    {',
         '        File f; f.compressionLevel = 0; f.writeRestorePoints = false;',
         '        f.open(VP_FILE("a.blf"), std::ios_base::out);']
    for c in classes:
        L.append('        { %s * o = new %s; memcpy(&codes[n++], &o->objectType, 4); f.write(o); }' % (c, c))
    L += ['        f.close();', '    }',
          '    File g; g.open(VP_FILE("a.blf"), std::ios_base::in);',
          '    ObjectHeaderBase * o; int k = 0;']
    for i, c in enumerate(classes):
        L.append('    o = g.read(); vp_assert(o != nullptr, "default %s written through File is delivered when the file is read");' % c)
        L.append('    if (o) { vp_assert(typeid(*o) == typeid(%s), "%s comes back as its own class"); uint32_t ot; memcpy(&ot, &o->objectType, 4); '
                 'vp_assert(ot == codes[%d], "%s keeps its type code"); delete o; k++; }' % (c, c, i, c))
    L += ['    o = g.read(); vp_assert(o == nullptr, "nothing but the written objects is delivered"); delete o;',
          '    g.close();',
          '    vp_reach("h_file_types:end");', '}']
    return '#define VP_FS_CAP 60000\n#include <cstring>\n' + '\n'.join(L) + '\n'


def tasks(tier, seed):
    r = reflect.reflect()
    reach = ['h_factory:end', 'unknown'] + ['code_%d' % v for _, _, v in r['table']]
    ts = [Task('factory', factory_harness(), 'h_factory', None,
               desc='File::createObject(c) for a symbolic 32-bit code c: null exactly for the codes the format leaves '
                    'unassigned, otherwise dynamic type and objectType as assigned by the File.h table',
               reach=reach, bounds='all 2^32 codes (one path per switch arm + default)',
               kinds={'assert', 'memory', 'uncaught_exception', 'terminate', 'leak'}, opts=dict(validate=False))]
    ts += CC.rt_tasks(tier, kinds={'typecode', 'uninit_member', 'uninit_output', 'roundtrip', 'memory'}, entry='h_default')
    # through the file: a default object of every class written with File and read back by File (the read path consults the
    # factory with the code found in the file)
    import codec
    cls = [c for c in codec.classes() if c not in FILE_EXEMPT]
    step = 10
    for i in range(0, len(cls), step):
        chunk = cls[i:i + step]
        ts.append(Task('file_types.%s-%s' % (chunk[0], chunk[-1]), file_types_harness(chunk), 'h_file_types', None,
                       opts=dict(validate=False, extra=['zlib_stub.cpp'], limit_is_hang=True, max_steps=20000000, max_wall=600),
                       desc='default-constructed objects of %s written through a File session and read back: each is delivered, '
                            'as its own class, with the code it was constructed with' % ', '.join(chunk),
                       reach=('h_file_types:end',), bounds='one default object per class',
                       kinds={'assert', 'memory', 'uncaught_exception', 'terminate', 'deadlock', 'hang', 'leak'}))
    meta = dict(
        level='model_checking',
        explanation='(1) The real File::createObject switch is executed for a symbolic 32-bit type code; llsym forks per '
                    'feasible switch arm with z3 and the assertions compare the result with the class/code table parsed '
                    'from the comments of File.h and the ObjectType enumerators (independent of the switch). (2) Every '
                    'class is default-constructed in heap memory whose unwritten bytes are unconstrained symbols: its '
                    'objectType must be one of the class\'s codes, no member value and no encoded byte may depend on '
                    'unwritten memory, and write->read gives the same code.',
        trusted_base=CC.TRUSTED,
        bounds='all 2^32 codes; one default-constructed object per class',
        assumptions=['the class <-> code table is the one in the include comments of File.h'])
    return ts, meta
