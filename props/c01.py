"""C01 Write-then-read returns the same objects (codec-level lemma L1; stream/pipeline lemmas are C15/C16/C04)."""
import codec_common as CC
import session_common as SC


def tasks(tier, seed):
    # a decoder that consumes fewer/more bytes than were emitted shifts every following object: part of the round trip
    ts = CC.rt_tasks(tier, kinds={'roundtrip', 'idempotence', 'uncaught_exception', 'terminate', 'framing'})
    # lemma: the write pipeline cannot deadlock for ANY configured container size (otherwise nothing is read back)
    import c06
    ts += [t for t in c06.tasks(tier, seed)[0] if t.tid == 'probe.h_write_session']
    ts += SC.session_tasks(tier, ['CHECK_C01'], 'session', ('C01:',))
    ts += SC.session_tasks(tier, ['CHECK_C01'], 'session', ('C01:',), slow=True)
    ts += SC.big_session_tasks(tier, 'session', ('C01:',))
    ts += CC.big_tasks(tier, kinds={'roundtrip', 'idempotence', 'uncaught_exception', 'terminate'})
    meta = dict(
        level='model_checking',
        explanation='Lemma L1 of the compositional argument in DESIGN.md: for every creatable class, an object '
                    'populated through the API with symbolic scalars/payloads is written to an in-memory stream and '
                    'read into a fresh object by the real codec code (llsym on clang IR); z3 decides per path that '
                    'every member the writer persists or the reader sets compares equal, payload containers come '
                    'back with identical length and content, and re-encoding the decoded object reproduces the bytes. '
                    'In addition whole write+read sessions of the real File (threads, containers, stub zlib) run symbolically: '
                    'objects come back complete, in order, with equal encodings, followed by null/eof/!good.',
        trusted_base=CC.TRUSTED + SC.SESSION_TRUST,
        bounds='codec lemma: container lengths 0..4 (quick) / 0..8 (thorough), one object; end-to-end sessions: 4 objects of 3 types, '
               'configurations (level, container size, restore points) 3 quick / 10 thorough, one cooperative schedule',
        assumptions=['composition with the stream (C15), queue (C16), container framing (C04) and dispatch (C17) '
                     'lemmas is argued in DESIGN.md, not by a single query',
                     'zlib is trusted (uncompress(compress2(x)) == x)'])
    return ts, meta
