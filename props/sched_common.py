"""Sessions under systematic schedule exploration (preemption bound 1 at every mutex release / thread start)."""
import os
import session_common as SC
from framework import Task


def sched_tasks(tier, checks, prefix, msg_prefix, kinds, race=False, nobj=2, digest=False, extra_defs='', in_cs=False, cfgs=None, child_first=False):
    cfgs = cfgs or ([(0, 40, 0)] if tier == 'quick' else [(0, 40, 0), (6, 64, 1), (0, 7, 0)])
    width = (48 if tier == 'quick' else 32) * (2 if in_cs else 1)
    nranges = 12 if tier == 'quick' else 24
    out = []
    for lvl, cs, rp in cfgs:
        for ec in ((-1,) if tier == 'quick' else (-1, 1)):
            defs = '#define VP_FS_CAP 24000\n#define CFG_LEVEL %d\n#define CFG_CONTAINER %d\n#define CFG_RESTORE %d\n' \
                   '#define NOBJ %d\n#define EARLY_CLOSE_AFTER %d\n' % (lvl, cs, rp, nobj, ec)
            defs += ''.join('#define %s 1\n' % c for c in checks) + extra_defs
            for r in range(nranges + 1):
                lo = r * width
                hi = (r + 1) * width if r < nranges else 10 ** 9
                tid = '%s.l%d_c%d_r%d%s.sync%d-%s' % (prefix, lvl, cs, rp, '' if ec < 0 else '_close%d' % ec, lo,
                                                      hi if r < nranges else 'end')
                out.append(Task(tid, defs + SC.SRC, 'h_session', None,
                                opts=dict(validate=False, extra=['zlib_stub.cpp'], limit_is_hang=True, max_steps=12000000, max_wall=1500,
                                          enum_limit=400, msg_prefix=msg_prefix, preempt_bound=1, preempt_range=(lo, hi),
                                          race_detect=race, digest_tags=('file',) if digest else (), preempt_in_cs=in_cs, child_first=child_first),
                                desc='write+read session (level %d, container %d, restore %d, %d objects%s) under every schedule '
                                     'that preempts the running thread once at a synchronisation point numbered %d..%s '
                                     '(mutex release / thread start) in favour of each other runnable thread%s' % (
                                         lvl, cs, rp, nobj, '' if ec < 0 else ', early close', lo, hi if r < nranges else 'end',
                                         '; base schedule: a new thread runs before its creator continues' if child_first else ''),
                                reach=('h_session:end',), bounds='preemption bound 1; %d objects' % nobj, kinds=kinds))
    return out


def digest_post(res):
    """the finished file must be the same term-for-term under every explored schedule of one configuration"""
    groups = {}
    for tid, r in res.items():
        if '.sync' not in tid:
            continue
        cfg = tid.rsplit('.sync', 1)[0]
        for d, sched in r.get('out_digests', []):
            if 'file' in d:
                groups.setdefault(cfg, []).append((d['file'], tid, sched))
    out = []
    for cfg, lst in groups.items():
        ref = lst[0][0]
        for dg, tid, sched in lst:
            if dg != ref:
                out.append((tid, dict(kind='schedule_dependent', msg='the bytes of the written file differ between two schedules of the same session (%s)' % cfg,
                                      where='post', extra=dict(schedule=sched), inputs=[])))
                break
    return out


TWO = open(os.path.join(os.path.dirname(os.path.abspath(__file__)), 'harness', 'two_files.cpp')).read()


def two_file_tasks(tier, prefix, kinds, race):
    """two File objects written concurrently, every schedule with one preemption"""
    out = []
    width = 96
    nranges = 10 if tier == 'quick' else 24
    for lvl in ((6,) if tier == 'quick' else (6, 0)):
        for r in range(nranges + 1):
            lo = r * width
            hi = (r + 1) * width if r < nranges else 10 ** 9
            out.append(Task('%s_two_files.l%d.sync%d-%s' % (prefix, lvl, lo, hi if r < nranges else 'end'),
                            '#define VP_FS_CAP 4096\n#define CFG_LEVEL %d\n' % lvl + TWO, 'h_two_files', None,
                            opts=dict(validate=False, extra=['zlib_stub.cpp'], limit_is_hang=True, max_steps=12000000, max_wall=1500,
                                      enum_limit=400, preempt_bound=1, preempt_range=(lo, hi), race_detect=race, preempt_in_cs=True),
                            desc='two independent File objects (level %d, container sizes 40 / 56) written concurrently by one '
                                 'application thread, four worker threads, every schedule with one preemption at a synchronisation '
                                 'point %d..%s: each file must hold exactly its own objects' % (lvl, lo, hi if r < nranges else 'end'),
                            reach=('h_two_files:end',), bounds='3 objects per file; preemption bound 1', kinds=kinds))
    return out


FOREIGN = open(os.path.join(os.path.dirname(os.path.abspath(__file__)), 'harness', 'c07_foreign.cpp')).read()


def foreign_tasks(tier, prefix, kinds):
    """read session over a valid file of another producer (no padding behind the last object), one preemption"""
    out = []
    width = 64
    nranges = 8 if tier == 'quick' else 16
    for nobj, cs in (((2, 4096),) if tier == 'quick' else ((2, 4096), (3, 60), (1, 4096))):
        for r in range(nranges + 1):
            lo = r * width
            hi = (r + 1) * width if r < nranges else 10 ** 9
            out.append(Task('%s_foreign.n%d_c%d.sync%d-%s' % (prefix, nobj, cs, lo, hi if r < nranges else 'end'),
                            '#define VP_FS_CAP 8192\n#define NOBJ %d\n#define CFG_CONTAINER %d\n' % (nobj, cs) + FOREIGN, 'h_foreign', None,
                            opts=dict(validate=False, extra=['zlib_stub.cpp'], limit_is_hang=True, max_steps=12000000, max_wall=1500,
                                      enum_limit=400, preempt_bound=1, preempt_range=(lo, hi), preempt_in_cs=True),
                            desc='read session over a valid file whose last object (%d AppText objects, sizes 53.., container size %d) '
                                 'is not followed by padding, every schedule with one preemption at a synchronisation point %d..%s: '
                                 'all objects, then end of file' % (nobj, cs, lo, hi if r < nranges else 'end'),
                            reach=('h_foreign:end',), bounds='%d objects; preemption bound 1' % nobj, kinds=kinds))
    return out


def unknown_tasks(tier, prefix, kinds):
    """read session over a file with an unknown object that spans two containers and carries an object image in its body,
    every schedule with one preemption (decoder ahead of / behind the inflater at the moment of the skip)"""
    import c09
    fsrc = c09.file_source()
    out = []
    width = 64
    nranges = 6 if tier == 'quick' else 12
    for cut, scaled in (((60, 0),) if tier == 'quick' else ((60, 0), (60, 1), (30, 0))):
        for r in range(nranges + 1):
            lo = r * width
            hi = (r + 1) * width if r < nranges else 10 ** 9
            out.append(Task('%s_unknown.cut%d%s.sync%d-%s' % (prefix, cut, '_scaled' if scaled else '', lo, hi if r < nranges else 'end'),
                            '#define EMBEDDED_IMAGE 1\n' + ('#define SCALED_STREAM 1\n' if scaled else '') + '#define CUT %d\n' % cut + fsrc, 'h_unknown', None,
                            opts=dict(validate=False, extra=['zlib_stub.cpp'], limit_is_hang=True, max_steps=12000000, max_wall=1500,
                                      enum_limit=400, preempt_bound=1, preempt_range=(lo, hi), preempt_in_cs=True, child_first=True),
                            desc='read session over [CanMessage][unknown object spanning two containers, body contains a CanMessage '
                                 'image][AppText], child-first base schedule plus one preemption at a synchronisation point %d..%s: '
                                 'exactly the two known objects, then end of file' % (lo, hi if r < nranges else 'end'),
                            reach=('h_unknown:end',), bounds='one file shape; preemption bound 1', kinds=kinds))
    return out
