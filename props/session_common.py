"""Whole-file session tasks (props/harness/session.cpp) shared by C01, C04, C05, C06."""
import os

from framework import Task

HERE = os.path.dirname(os.path.abspath(__file__))
SRC = open(os.path.join(HERE, 'harness', 'session.cpp')).read()

QUICK = [(0, 40, 0), (6, 64, 1), (0, 1, 0)]
THOROUGH = QUICK + [(9, 200, 0), (1, 131072, 1), (0, 16, 1), (3, 7, 0), (0, 48, 0), (6, 47, 1), (9, 1, 1)]
SESSION_TRUST = ['support/stubs/fstream: in-memory std::fstream / file model', 'support/zlib_stub.cpp: zlib contract model '
                 '(uncompress(compress2(x)) == x, bound, level recorded)',
                 'engine/models.py: std::thread / mutex / condition_variable as cooperative threads (one schedule per run)']


def session_tasks(tier, checks, prefix, msg_prefix, early=(), nobj=4, kinds=None, scaled=False, slow=False):
    cfgs = QUICK if tier == 'quick' else THOROUGH
    out = []
    for lvl, cs, rp in cfgs:
        for ec in (-1,) + tuple(early):
            defs = '#define VP_FS_CAP 24000\n#define CFG_LEVEL %d\n#define CFG_CONTAINER %d\n#define CFG_RESTORE %d\n' \
                   '#define NOBJ %d\n#define EARLY_CLOSE_AFTER %d\n' % (lvl, cs, rp, nobj, ec)
            defs += ''.join('#define %s 1\n' % c for c in checks) + ('#define SCALE_THRESHOLDS 1\n' if scaled else '') + ('#define SLOW_PRODUCER 1\n' if slow else '')
            tid = '%s%s%s.l%d_c%d_r%d%s' % (prefix, '_scaled' if scaled else '', '_slow' if slow else '', lvl, cs, rp, '' if ec < 0 else '_close%d' % ec)
            out.append(Task(tid, defs + SRC, 'h_session', None,
                            opts=dict(validate=False, extra=['zlib_stub.cpp'], limit_is_hang=True, max_steps=12000000, max_wall=300,
                                      enum_limit=400, msg_prefix=msg_prefix),
                            desc='write session then read session of the real File (compression level %d, container size %d, '
                                 'restore points %d%s): %d objects (CanMessage, AppText, CanMessage2) with symbolic field '
                                 'values and payload bytes, caller-supplied header fields symbolic' % (
                                     lvl, cs, rp, '' if ec < 0 else ', close() after %d of %d reads' % (ec, nobj), nobj),
                            reach=('h_session:end',), bounds='%d objects; one cooperative schedule' % nobj,
                            kinds=kinds or {'assert', 'memory', 'uncaught_exception', 'terminate', 'deadlock', 'hang', 'limit', 'leak'}))
    return out


BIG = open(os.path.join(HERE, 'harness', 'session_big.cpp')).read()


def big_session_tasks(tier, prefix, msg_prefix, kinds=None):
    """more data (208 KB) than the stream buffer, container size (192 KiB / 256 KiB) above the buffer size"""
    out = []
    for lvl, cs, inc in (((0, 0x30000, 0), (6, 40000, 1)) if tier == 'quick' else ((0, 0x30000, 0), (6, 0x40000, 0), (0, 0x20001, 0), (6, 40000, 1), (1, 0x30000, 1))):
        out.append(Task('%s_big.l%d_c%d%s' % (prefix, lvl, cs, '_incompressible' if inc else ''),
                        '#define CFG_LEVEL %d\n#define CFG_CONTAINER %d\n' % (lvl, cs) + ('#define INCOMPRESSIBLE 1\n' if inc else '') + BIG,
                        'h_big_session', None,
                        opts=dict(validate=False, extra=['zlib_stub.cpp'], limit_is_hang=True, max_steps=60000000, max_wall=600,
                                  msg_prefix=msg_prefix),
                        desc=('write + read session of 5 AppText objects of 50000 text bytes (250 KB, more than the 128 KiB stream ' if inc else 'write + read session of 52 AppText objects of 4000 text bytes (208 KB, more than the 128 KiB stream ') +
                             'buffer), level %d, container size %d%s: independent container walk, header '
                             'statistics, objects read back' % (lvl, cs, ', high-entropy payload (deflate cannot shrink it)' if inc else ' (above the buffer size)'),
                        reach=('h_big_session:end',), bounds='52 objects of 4 KB; one cooperative schedule',
                        kinds=kinds or {'assert', 'memory', 'uncaught_exception', 'terminate', 'deadlock', 'hang', 'limit', 'leak'}))
    return out
