"""C09 Unknown object types and filler bytes are skipped without losing neighbours."""
import os

import codec_common as CC
import reflect
import session_common as SC
from framework import Task

HERE = os.path.dirname(os.path.abspath(__file__))


def codes_inc():
    r = reflect.reflect()
    known = sorted({v for c, n, v in r['table']})
    return '\n'.join('    vp_assume(code != %du);' % v for v in known) + '\n'


def file_source():
    return open(os.path.join(HERE, 'harness', 'c09_file.cpp')).read().replace('#include "c09_codes.inc"\n', codes_inc())


def tasks(tier, seed):
    ts = []
    src = open(os.path.join(HERE, 'harness', 'c09_resync.cpp')).read()
    maxfill = 7 if tier == 'quick' else 9
    ts.append(Task('resync', '#define MAXFILL %d\n' % maxfill + src, 'h_resync', None,
                   opts=dict(validate=True, max_wall=1500),
                   desc='ObjectHeaderBase::read on filler of length 0..%d with fully symbolic bytes (constrained only not to '
                        'contain the signature) followed by a header with symbolic fields: the signature must be found exactly '
                        'at the real header' % maxfill,
                   reach=('h_resync:end',), bounds='filler <= %d bytes, all 256 byte values' % maxfill,
                   kinds={'assert', 'memory', 'uncaught_exception', 'terminate', 'limit'}))
    fsrc = file_source()
    for cut in ((0, 3) if tier == 'quick' else (0, 1, 3, 9, 20)):
        ts.append(Task('unknown.cut%d' % cut, '#define CUT %d\n' % cut + fsrc, 'h_unknown', None,
                       opts=dict(validate=False, extra=['zlib_stub.cpp'], limit_is_hang=True, max_wall=1500, max_steps=6000000, enum_limit=400),
                       desc='hand-assembled uncompressed stream [CanMessage][filler 0..3][unknown object: symbolic type code not assigned '
                            'by the format (all such 32-bit codes), declared size in {16,17,19,32,40}, arbitrary body][filler 0..2]'
                            '[AppText] in %s, read through the whole pipeline: both known objects delivered unmodified, in '
                            'order, then null' % ('one container' if cut == 0 else 'two containers split %d bytes before the end of the unknown object' % cut),
                       reach=('h_unknown:end',), bounds='filler <= 3 bytes; unknown sizes {16,17,19,32,40}',
                       kinds={'assert', 'memory', 'uncaught_exception', 'terminate', 'deadlock', 'hang', 'limit'}))
    for cut in ((3,) if tier == 'quick' else (1, 3, 9, 20)):
        ts.append(Task('unknown_scaled.cut%d' % cut, '#define SCALED_STREAM 1\n#define CUT %d\n' % cut + fsrc, 'h_unknown', None,
                       opts=dict(validate=False, extra=['zlib_stub.cpp'], limit_is_hang=True, max_wall=1500, max_steps=6000000, enum_limit=400),
                       desc='the same stream in two containers split %d bytes before the end of the unknown object, stream buffer '
                            'scaled down to 16 bytes: the inflater is parked when the decoder skips across the boundary' % cut,
                       reach=('h_unknown:end',), bounds='filler <= 3 bytes; unknown sizes {16,17,19,32,40}',
                       kinds={'assert', 'memory', 'uncaught_exception', 'terminate', 'deadlock', 'hang', 'limit'}))
    # bytes inside the unknown object that look like an object (a complete CanMessage image) must be skipped with it, also
    # when the container holding them has not been inflated yet at the moment of the skip
    for cut in ((60,) if tier == 'quick' else (60, 58, 30, 4)):
        ts.append(Task('unknown_embedded.cut%d' % cut, '#define EMBEDDED_IMAGE 1\n#define SCALED_STREAM 1\n#define CUT %d\n' % cut + fsrc, 'h_unknown', None,
                       opts=dict(validate=False, extra=['zlib_stub.cpp'], limit_is_hang=True, max_wall=1500, max_steps=6000000, enum_limit=400),
                       desc='[CanMessage][unknown object of 80 bytes whose body contains a complete CanMessage image][AppText] in two '
                            'containers split %d bytes before the end of the unknown object, stream buffer 16 bytes' % cut,
                       reach=('h_unknown:end',), bounds='one shape', kinds={'assert', 'memory', 'uncaught_exception', 'terminate', 'deadlock', 'hang', 'limit'}))
    meta = dict(
        level='model_checking',
        explanation='(a) The 4-byte-window signature matcher with -3/-2/-1 back-off is executed on fully symbolic filler bytes; z3 '
                    'decides on every path that the real header is found and decoded. (b) Streams with an unknown object (type code '
                    'symbolic over all unassigned codes, body arbitrary - it may contain the signature) and filler between objects '
                    'are assembled by the harness from the format description, wrapped in method-0 containers (also split across '
                    'two containers) and read by the real three-thread pipeline; the neighbours must come back with identical '
                    'encodings for all field values.',
        trusted_base=CC.TRUSTED + SC.SESSION_TRUST,
        bounds='filler <= 7 (quick) / 9 (thorough) bytes for the matcher; file level: filler <= 3, five unknown sizes, container '
               'split positions listed per harness',
        assumptions=['the class/code table of File.h defines which codes are unknown'],
        validate=2)
    return ts, meta
