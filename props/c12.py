"""C12 Buffered data stays bounded no matter how long the file is."""
import os

import codec_common as CC
import framework
import session_common as SC
from framework import Task

HERE = os.path.dirname(os.path.abspath(__file__))
SRC = open(os.path.join(HERE, 'harness', 'c12_mem.cpp')).read()


def harness(n, cs, tl, corrupt=None):
    if cs > 0x20000:
        # container size above the 128 KiB default: the thresholds of the public API, not the scaled-down ones
        return '#define UNSCALED 1\n#define VP_FS_CAP %d\n#define NOBJ %d\n#define CFG_CONTAINER %d\n#define TEXTLEN %d\n' % (
            n * (tl + 64) + 8 * (cs + 64), n, cs, tl) + SRC
    return '#define VP_FS_CAP 60000\n#define NOBJ %d\n#define CFG_CONTAINER %d\n#define TEXTLEN %d\n' % (n, cs, tl) + \
        ('#define CORRUPT_OBJECT %d\n' % corrupt if corrupt is not None else '') + SRC


def tasks(tier, seed):
    cfgs = [(16, 60), (200, 20)] if tier == 'quick' else [(16, 60), (200, 20), (7, 100), (64, 64)]
    ts = []

    def sizes_for(cs, tl):
        if cs > 0x20000:
            # saturation measured natively: the peak is flat from about 10 containers on (two containers in the stream,
            # each with its stored copy, ten queued objects, one in flight); 5 containers are NOT enough (my first version
            # of this variant compared an unsaturated file with a saturated one)
            lo = (10 * cs) // (tl + 48) + 2
            return (lo, lo + lo // 2)
        # both files must be long enough to saturate the back-pressure thresholds (buffer = cs + tl, 2 queued objects)
        lo = (4 * (2 * cs + tl)) // (tl + 48) + 2
        return (lo, 3 * lo) if tier == 'quick' else (lo, 3 * lo, 6 * lo)
    variants = [(cs, tl, None) for cs, tl in cfgs] + [(cs, tl, 2) for cs, tl in cfgs[:1 if tier == 'quick' else 2]]
    variants.append((140000, 30000, None))
    for cs, tl, corrupt in variants:
        sizes = sizes_for(cs, tl)
        sfx = '' if corrupt is None else '.corrupt%d' % corrupt
        for n in sizes:
            txt = harness(n, cs, tl, corrupt)

            def native_growth(cs=cs, tl=tl, sizes=sizes, corrupt=corrupt):
                peaks = []
                for k in sizes:
                    nr = framework.native_run(harness(k, cs, tl, corrupt), 'h_mem', [], timeout=60)
                    d = dict(nr['notes'])
                    peaks.append((d.get('read_peak', 0), d.get('write_peak', 0)))
                grow = peaks[-1][0] > peaks[0][0] + cs + tl + 1024 or peaks[-1][1] > peaks[0][1] + cs + tl + 1024
                return grow, 'native live-heap peaks (read, write) for N=%s: %s' % (list(sizes), peaks)
            ts.append(Task('mem.c%d_t%d%s.n%d' % (cs, tl, sfx, n), txt, 'h_mem', None,
                           opts=dict(validate=False, extra=['zlib_stub.cpp'], limit_is_hang=True, max_steps=60000000, max_wall=1500,
                                     native_growth=native_growth),
                           desc=('object %d of the file is malformed (declared size 0) and the File stays open after the end was reported; ' % corrupt if corrupt is not None else '') +
                                '%d AppText objects with %d symbolic text bytes, container size %d (objects %s containers): '
                                'peak live heap of the library during a slow-producer write session and a read session' % (
                                    n, tl, cs, 'span several' if tl + 48 > cs else 'are smaller than'),
                           reach=('h_mem:end',), bounds='N = %d objects' % n,
                           kinds={'assert', 'memory', 'deadlock', 'hang', 'limit', 'uncaught_exception', 'terminate', 'growth'}))

    def post(res):
        out = []
        for cs, tl, corrupt in variants:
            sfx = '' if corrupt is None else '.corrupt%d' % corrupt
            peaks = {}
            for n in sizes_for(cs, tl):
                r = res.get('mem.c%d_t%d%s.n%d' % (cs, tl, sfx, n))
                if not r or not r.get('notes'):
                    continue
                d = dict(r['notes'][0])
                peaks[n] = (d.get('read_peak', 0), d.get('write_peak', 0))
            if len(peaks) < 2:
                continue
            lo, hi = min(peaks), max(peaks)
            for idx, what in ((0, 'reading'), (1, 'writing')):
                a, b = peaks[lo][idx], peaks[hi][idx]
                # bounded means: independent of N up to one container / one object of slack
                if b > a + cs + tl + 1024:      # slack: one container, one object, one 512-byte deque node of the queue
                    out.append(('mem.c%d_t%d%s.n%d' % (cs, tl, sfx, hi), dict(
                        kind='growth', msg='peak live heap while %s grows with the number of objects: %s' % (
                            what, ', '.join('N=%d: %d B' % (k, peaks[k][idx]) for k in sorted(peaks))),
                        where='post', extra={}, inputs=[])))
        return out
    meta = dict(
        level='model_checking',
        explanation='llsym accounts every operator new / delete of the real library code; sessions over files of N objects are '
                    'executed symbolically (text bytes symbolic) with a consumer/producer that lets the workers run until they '
                    'block, and the peak of live heap bytes is compared between a file of N objects and files of 3N (and 6N) objects, N chosen so that '
                    'even the shortest file exceeds four times the back-pressure thresholds: it must not '
                    'grow by more than one container plus one object. A growth is re-measured natively with a counting allocator.',
        trusted_base=CC.TRUSTED + SC.SESSION_TRUST,
        bounds='N, 3N (quick) / N, 3N, 6N (thorough) objects; container/object size pairs listed per harness; thresholds scaled down to '
               'container + object size via private members; one cooperative schedule',
        assumptions=['extrapolation from the measured N to arbitrary N is by the inductive argument in DESIGN.md (each worker step '
                     'drops every container that lies wholly behind the get position)'],
        post=post, validate=0)
    return ts, meta
