// C07 on a file the library did not write itself: a valid log whose last object is not followed by the (objectSize % 4)
// padding - the stream ends directly behind it, as in logs of other producers. Read under every schedule with one
// preemption: the objects delivered and the end-of-file report must not depend on whether the decoder's padding skip or the
// inflater's end-of-stream declaration comes first.
#include <vp_harness.h>
#include <vp_fs.h>
#include <Vector/BLF.h>
using namespace Vector::BLF;
#ifndef NOBJ
#define NOBJ 2
#endif
#ifndef CFG_CONTAINER
#define CFG_CONTAINER 4096
#endif
static unsigned char img[8192];
static unsigned char txt[NOBJ][8];
static uint32_t rd32(const unsigned char * p) { uint32_t v; memcpy(&v, p, 4); return v; }
static void wr32(unsigned char * p, uint32_t v) { memcpy(p, &v, 4); }
extern "C" void h_foreign() {
    {
        File f; f.compressionLevel = 0; f.setDefaultLogContainerSize(CFG_CONTAINER); f.writeRestorePoints = false;
        f.open(VP_FILE("a.blf"), std::ios_base::out);
        for (int i = 0; i < NOBJ; i++) {
            AppText * t = new AppText; t->source = 7 + i; t->text.resize(5 + i);          // objectSize 53, 54: % 4 != 0
            vp_bytes(txt[i], 5 + i, "text"); memcpy(&t->text[0], txt[i], 5 + i);
            f.write(t);
        }
        f.close();
    }
    long n = vp_fs_get("a.blf", img, sizeof img);
    // find the last container and cut the padding behind its last object
    long pos = 144, last = -1;
    while (pos + 32 <= n) { uint32_t osz = rd32(img + pos + 8); if (osz < 32 || pos + osz > n) break; last = pos; pos += osz + osz % 4; }
    VP_ASSERT(last >= 0);
    uint32_t osz = rd32(img + last + 8), usz = rd32(img + last + 24);
    uint32_t lastObj = 48 + 5 + (NOBJ - 1), pad = lastObj % 4;
    VP_ASSERT(pad != 0 && usz > pad && osz == 32 + usz);
    wr32(img + last + 8, osz - pad); wr32(img + last + 24, usz - pad);
    long n2 = last + (osz - pad); n2 += (osz - pad) % 4;                               // the container's own padding
    for (long k = last + osz - pad; k < n2; k++) img[k] = 0;
    vp_fs_put("a.blf", img, n2);
    {
        File g; g.open(VP_FILE("a.blf"), std::ios_base::in);
        int cnt = 0;
        for (;;) {
            ObjectHeaderBase * o = g.read();
            if (!o) break;
            VP_ASSERT(cnt < NOBJ);
            VP_ASSERT(o->objectType == ObjectType::APP_TEXT);
            AppText * a = o->objectType == ObjectType::APP_TEXT ? static_cast<AppText *>(o) : nullptr;
            if (a && cnt < NOBJ) {
                VP_ASSERT(a->source == (uint32_t)(7 + cnt)); VP_ASSERT(a->text.size() == (size_t)(5 + cnt));
                if (a->text.size() == (size_t)(5 + cnt)) for (int k = 0; k < 5 + cnt; k++) VP_ASSERT((unsigned char)a->text[k] == txt[cnt][k]);
            }
            delete o; cnt++;
            if (cnt > NOBJ + 2) break;
        }
        VP_ASSERT(cnt == NOBJ);
        VP_ASSERT(g.eof());
        g.close();
    }
    vp_reach("h_foreign:end");
}
