// C09 (b): unknown object types and filler between objects, through the whole read pipeline.
#include <vp_harness.h>
#include <vp_fs.h>
#include <Vector/BLF.h>
using namespace Vector::BLF;
#ifndef CUT
#define CUT 0          /* 0: one container; k>0: second container starts k bytes before the end of the unknown object */
#endif
static unsigned char S[512]; static long SL;
static unsigned char img[2048]; static long IL;
static unsigned char encA[64], encB[96]; static long la, lb;

static void put(const void * p, long n) { memcpy(S + SL, p, static_cast<size_t>(n)); SL += n; }
static void container(const unsigned char * p, long n) {
    unsigned char * c = img + IL;
    memcpy(c, "LOBJ", 4); uint16_t hs = 16, hv = 1; uint32_t osz = 32 + static_cast<uint32_t>(n), ot = 10;
    memcpy(c + 4, &hs, 2); memcpy(c + 6, &hv, 2); memcpy(c + 8, &osz, 4); memcpy(c + 12, &ot, 4);
    memset(c + 16, 0, 16); uint32_t usz = static_cast<uint32_t>(n); memcpy(c + 24, &usz, 4);
    memcpy(c + 32, p, static_cast<size_t>(n));
    long pad = osz % 4; memset(c + 32 + n, 0, static_cast<size_t>(pad));
    IL += 32 + n + pad;
}
static void nosig(const unsigned char * b, uint32_t L, const unsigned char * next4) {
    // no "LOBJ" window starts inside the filler (it may run into the following bytes)
    for (uint32_t i = 0; i < L; i++) {
        unsigned char w[4];
        for (uint32_t k = 0; k < 4; k++) w[k] = (i + k < L) ? b[i + k] : next4[i + k - L];
        vp_assume(!(w[0] == 'L' && w[1] == 'O' && w[2] == 'B' && w[3] == 'J'));
    }
}

extern "C" void h_unknown() {
    // two known objects with symbolic fields
    { CanMessage a; a.id = vp_u32("a.id"); a.channel = vp_u16("a.ch"); vp_bytes(a.data.data(), 8, "a.data"); MemFile m(encA, sizeof encA); a.write(m); la = m.p; }
    { AppText b; b.source = vp_u32("b.src"); b.text.resize(6); vp_bytes(&b.text[0], 6, "b.text"); MemFile m(encB, sizeof encB); b.write(m); lb = m.p; }
    SL = 0;
    put(encA, la);
#ifdef EMBEDDED_IMAGE
    // fixed shape for schedule exploration: no filler, an unknown object of 80 bytes (type 200) whose body carries a complete
    // CanMessage image (id 0x666) - bytes that look like an object but lie inside the unknown one and must be skipped with it
    {
        unsigned char uh[16]; memcpy(uh, "LOBJ", 4); uint16_t hs = 16, hv = 1; uint32_t usz = 80, code = 200;
        memcpy(uh + 4, &hs, 2); memcpy(uh + 6, &hv, 2); memcpy(uh + 8, &usz, 4); memcpy(uh + 12, &code, 4);
        put(uh, 16);
        unsigned char body[64]; memset(body, 0x55, sizeof body);
        { CanMessage e; e.id = 0x666; MemFile m(body + 8, 48); e.write(m); }
        long unknownEnd = SL + 64;
        put(body, 64);
        put(encB, lb);
        IL = 0;
        { FileStatistics fs; MemFile m(img, 144); fs.write(m); IL = 144; }
        long c = unknownEnd - CUT; if (c < 1) c = 1; container(S, c); container(S + c, SL - c);
        goto assembled;
    }
#endif
    {
    // filler before the unknown object
    uint32_t f1 = (uint32_t)vp_concrete(vp_choose(4, "filler1"));
    unsigned char fb1[4]; vp_bytes(fb1, 4, "f1");
    static const unsigned char LOBJ[4] = {'L', 'O', 'B', 'J'};
    nosig(fb1, f1, LOBJ);
    put(fb1, f1);
    // unknown object: any code the format does not assign, declared size >= one base header
    uint32_t code = vp_u32("unknown_code");
#define KNOWN_CODES_ASSUME
#include "c09_codes.inc"
    static const uint32_t sizes[] = {16, 17, 19, 32, 40};
    uint32_t usz = sizes[vp_concrete(vp_choose(5, "unknown_size"))];
    unsigned char uh[16]; memcpy(uh, "LOBJ", 4); uint16_t hs = vp_u16("u.hs"), hv = vp_u16("u.hv");
    memcpy(uh + 4, &hs, 2); memcpy(uh + 6, &hv, 2); memcpy(uh + 8, &usz, 4); memcpy(uh + 12, &code, 4);
    put(uh, 16);
    unsigned char body[24]; vp_bytes(body, 24, "u.body");        // may contain anything, including LOBJ
    long unknownEnd = SL + (usz - 16);
    put(body, usz - 16);
    // filler after it, then the second known object
    uint32_t f2 = (uint32_t)vp_concrete(vp_choose(3, "filler2"));
    unsigned char fb2[4]; vp_bytes(fb2, 4, "f2");
    nosig(fb2, f2, encB);
    put(fb2, f2);
    put(encB, lb);
    // file image: statistics header + one or two uncompressed containers
    IL = 0;
    { FileStatistics fs; MemFile m(img, 144); fs.write(m); IL = 144; }
    if (CUT == 0) container(S, SL);
    else { long c = unknownEnd - CUT; if (c < 1) c = 1; container(S, c); container(S + c, SL - c); }
    }
#ifdef EMBEDDED_IMAGE
assembled:
#endif
    vp_fs_put("a.blf", img, IL);
    File g;
#ifdef SCALED_STREAM
    // back-pressure threshold scaled down (the API fixes it at 128 KiB): the inflater is parked behind the first container, as
    // it is in a large file, when the decoder skips the unknown object across the container boundary
    g.m_uncompressedFile.setBufferSize(16);
#endif
    g.open(VP_FILE("a.blf"), std::ios_base::in);
    VP_ASSERT(g.is_open());
    static unsigned char re[96];
    ObjectHeaderBase * o1 = g.read();
    VP_ASSERT(o1 != nullptr);
    if (o1) { MemFile m(re, sizeof re); o1->write(m); VP_ASSERT(o1->objectType == ObjectType::CAN_MESSAGE); VP_ASSERT(m.p == la);
              if (m.p == la) for (long i = 0; i < la; i++) vp_assert(re[i] == encA[i], "first known object delivered unmodified"); delete o1; }
    ObjectHeaderBase * o2 = g.read();
    vp_assert(o2 != nullptr, "known object after the unknown one is delivered");
    if (o2) { MemFile m(re, sizeof re); o2->write(m); vp_assert(o2->objectType == ObjectType::APP_TEXT, "second known object has its type");
              vp_assert(m.p == lb, "second known object has its length");
              if (m.p == lb) for (long i = 0; i < lb; i++) vp_assert(re[i] == encB[i], "second known object delivered unmodified"); delete o2; }
    ObjectHeaderBase * o3 = g.read();
    vp_assert(o3 == nullptr, "nothing else is delivered");
    delete o3;
    g.close();
    vp_reach("h_unknown:end");
}
