// C16: ObjectQueue<ObjectHeaderBase> against a reference model, from an arbitrary counter state.
#include <vp_harness.h>
#include <Vector/BLF/ObjectQueue.h>
#include <Vector/BLF/ObjectHeaderBase.h>
using namespace Vector::BLF;
#ifndef STEPS
#define STEPS 3
#endif
#ifndef FIRST_OP
#define FIRST_OP (-1)
#endif
typedef ObjectQueue<ObjectHeaderBase> Q;

struct Model {
    ObjectHeaderBase * it[16]; int head = 0, n = 0;
    uint32_t tellg = 0, tellp = 0, fs = 0xffffffffu, bs = 0xffffffffu;
    bool ab = false, good = true, eof = false;
    bool readBlocks() const { return !ab && n == 0 && !(tellg >= fs); }
    bool writeBlocks() const { return !ab && !(static_cast<uint32_t>(n) < bs); }
};

static void observe(Q & q, Model & m) {
    VP_ASSERT(q.tellg() == m.tellg);
    VP_ASSERT(q.tellp() == m.tellp);
    VP_ASSERT(q.good() == m.good);
    VP_ASSERT(q.eof() == m.eof);
}

extern "C" void h_queue() {
    Q * qp = new Q; Q & q = *qp;
    Model m;
    // arbitrary counter state (private members set directly; the harness build has no access control)
    m.tellg = q.m_tellg = vp_u32("tellg");
    m.tellp = q.m_tellp = vp_u32("tellp");
    m.fs = q.m_fileSize = vp_u32("fileSize");
    m.bs = q.m_bufferSize = vp_u32("bufferSize");
    uint32_t pre = (uint32_t)vp_concrete(vp_choose(3, "preload"));
    for (uint32_t i = 0; i < pre; i++) { ObjectHeaderBase * p = new ObjectHeaderBase(1, ObjectType::UNKNOWN); q.m_queue.push(p); m.it[m.n++] = p; }
    for (int s = 0; s < STEPS; s++) {
        uint32_t op = (s == 0 && FIRST_OP >= 0) ? (uint32_t)FIRST_OP : (uint32_t)vp_concrete(vp_choose(5, "op"));
        uint64_t ng = vp_notified(&q.tellgChanged), np = vp_notified(&q.tellpChanged);
        bool rb0 = m.readBlocks(), wb0 = m.writeBlocks();
        if (op == 0) {            // write
            bool expectBlock = m.writeBlocks();
            ObjectHeaderBase * p = new ObjectHeaderBase(1, ObjectType::UNKNOWN);
            bool blocked = false;
            vp_probe(1); try { q.write(p); } catch (VpBlocked &) { blocked = true; } vp_probe(0);
            VP_ASSERT(blocked == expectBlock);
            if (blocked) delete p;
            else { if (m.n < 16) m.it[(m.head + m.n++) % 16] = p; m.tellp++; if (m.tellp > m.fs) m.fs = m.tellp; }
        } else if (op == 1) {     // read
            bool expectBlock = m.readBlocks();
            ObjectHeaderBase * r = nullptr; bool blocked = false;
            vp_probe(1); try { r = q.read(); } catch (VpBlocked &) { blocked = true; } vp_probe(0);
            VP_ASSERT(blocked == expectBlock);
            if (!blocked) {
                if (m.n == 0) { VP_ASSERT(r == nullptr); m.good = false; m.eof = true; }
                else { VP_ASSERT(r == m.it[m.head]); m.head = (m.head + 1) % 16; m.n--; m.good = true; m.eof = false; m.tellg++; delete r; }
            }
        } else if (op == 2) { uint32_t v = vp_u32("fs"); q.setFileSize(v); m.fs = v; }
        else if (op == 3) { uint32_t v = vp_u32("bs"); q.setBufferSize(v); m.bs = v; }
        else { q.abort(); m.ab = true;
               VP_ASSERT(vp_notified(&q.tellgChanged) > ng); VP_ASSERT(vp_notified(&q.tellpChanged) > np);
               VP_ASSERT(!m.readBlocks()); VP_ASSERT(!m.writeBlocks()); }
        observe(q, m);
        // no lost wake-up: a waiter whose predicate became true must have been notified by this operation
        // (setBufferSize is configuration done before the queue is shared; it is not required to wake anybody)
        if (op != 3) {
            if (rb0 && !m.readBlocks()) VP_ASSERT(vp_notified(&q.tellpChanged) > np);
            if (wb0 && !m.writeBlocks()) VP_ASSERT(vp_notified(&q.tellgChanged) > ng);
        }
    }
    // real would-block predicate agrees with the model in the final state, too
    {
        bool blocked = false; ObjectHeaderBase * r = nullptr;
        bool eb = m.readBlocks();
        vp_probe(1); try { r = q.read(); } catch (VpBlocked &) { blocked = true; } vp_probe(0);
        VP_ASSERT(blocked == eb);
        if (!blocked && r) { VP_ASSERT(r == m.it[m.head]); m.head = (m.head + 1) % 16; m.n--; delete r; }
    }
    delete qp;                 // frees everything still queued
    vp_check_leaks();
    vp_reach("h_queue:end");
}
