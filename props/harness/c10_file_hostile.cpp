#include <vp_harness.h>
#include <vp_fs.h>
#include <Vector/BLF.h>
using namespace Vector::BLF;
static unsigned char img[2048];
extern "C" void h_hostile() {
    {
        File f; f.compressionLevel = 0; f.setDefaultLogContainerSize(256);
        f.open(VP_FILE("a.blf"), std::ios_base::out);
        for (int i = 0; i < 3; i++) { CanMessage * m = new CanMessage; m->id = 100 + i; f.write(m); }
        f.close();
    }
    long n = vp_fs_get("a.blf", img, sizeof img);
    vp_note("n", n);
    // second object header: offsets relative to 176 + 48
    unsigned char * o = img + 176 + 48;
    uint32_t osz = vp_u32("objectSize"); memcpy(o + 8, &osz, 4);
    uint16_t hsz = vp_u16("headerSize"); memcpy(o + 4, &hsz, 2);
    static const uint32_t types[] = {1, 86, 65, 200, 0, 10};
    uint32_t ot = types[vp_choose(6, "objectType")]; memcpy(o + 12, &ot, 4);
    vp_fs_put("a.blf", img, n);
    {
    File g;
    g.open(VP_FILE("a.blf"), std::ios_base::in);
    int cnt = 0;
    while (ObjectHeaderBase * x = g.read()) { delete x; cnt++; if (cnt > 50) break; }
    vp_note("count", cnt);
    VP_ASSERT(cnt <= 50);
    g.close();
    }
    vp_check_leaks();
    vp_reach("end");
}
