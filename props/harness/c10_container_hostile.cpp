// C10: hostile log-container header / hostile object header in a multi-container file, whole read pipeline.
#include <vp_harness.h>
#include <vp_fs.h>
#include <Vector/BLF.h>
using namespace Vector::BLF;
#ifndef CFG_LEVEL
#define CFG_LEVEL 0
#endif
#ifndef FIELDS
#define FIELDS 7    /* bit 0: objectSize, bit 1: compressionMethod, bit 2: uncompressedFileSize */
#endif
#ifndef MODE
#define MODE 0      /* 0: container header fields symbolic; 1: object header (size, type) symbolic, more containers follow */
#endif
static unsigned char img[4096];
static uint32_t rd32(const unsigned char * p) { uint32_t v; memcpy(&v, p, 4); return v; }
extern "C" void h_container() {
    {
        File f; f.compressionLevel = CFG_LEVEL; f.setDefaultLogContainerSize(40); f.writeRestorePoints = false;
        f.open(VP_FILE("a.blf"), std::ios_base::out);
        for (int i = 0; i < 4; i++) { CanMessage * m = new CanMessage; m->id = 100 + i; f.write(m); }
        f.close();
    }
    long n = vp_fs_get("a.blf", img, sizeof img);
    // second container
    long c1 = 144; uint32_t osz1 = rd32(img + c1 + 8); long c2 = c1 + osz1 + osz1 % 4;
    VP_ASSERT(c2 + 32 <= n);
    if (MODE == 0) {
#if FIELDS & 1
        { uint32_t osz = vp_u32("container.objectSize"); memcpy(img + c2 + 8, &osz, 4); }
#endif
#if FIELDS & 2
        { uint16_t method = vp_u16("container.compressionMethod"); memcpy(img + c2 + 16, &method, 2); }
#endif
#if FIELDS & 8
        { uint32_t ot = vp_u32("container.objectType"); memcpy(img + c2 + 12, &ot, 4); }
#endif
#if FIELDS & 4
        { uint32_t usz = vp_u32("container.uncompressedFileSize"); memcpy(img + c2 + 24, &usz, 4); }
#endif
    } else {
        // the first object (48 bytes) spans containers 1 and 2; corrupt the SECOND object's header, which starts at
        // stream offset 48 = 8 bytes into container 2 (method 0 only)
        unsigned char * o = img + c2 + 32 + 8;
        VP_ASSERT(o[0] == 'L' && o[1] == 'O' && o[2] == 'B' && o[3] == 'J');
        uint32_t osz = vp_u32("objectSize"); memcpy(o + 8, &osz, 4);
        static const uint32_t types[] = {1, 86, 65, 200, 0};
        uint32_t ot = types[vp_concrete(vp_choose(5, "objectType"))]; memcpy(o + 12, &ot, 4);
    }
    vp_fs_put("a.blf", img, n);
    {
    File g;
#if MODE == 1
    // scaled-down back-pressure threshold (fixed at 128 KiB by the API): the inflater is held back after one container,
    // as it is in a large file
    g.m_uncompressedFile.setBufferSize(40);
#endif
    g.open(VP_FILE("a.blf"), std::ios_base::in);
    int cnt = 0;
    while (ObjectHeaderBase * x = g.read()) { delete x; cnt++; if (cnt > 50) break; }
    vp_note("count", cnt);
    VP_ASSERT(cnt <= 50);
    g.close();
    }
    vp_check_leaks();
    vp_reach("h_container:end");
}
