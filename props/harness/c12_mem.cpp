// C12: live decoded data while reading / writing must not grow with the number of containers.
#include <vp_harness.h>
#include <vp_fs.h>
#include <Vector/BLF.h>
using namespace Vector::BLF;
#ifndef NOBJ
#define NOBJ 4
#endif
#ifndef CFG_CONTAINER
#define CFG_CONTAINER 16
#endif
#ifndef TEXTLEN
#define TEXTLEN 60
#endif
extern "C" void h_mem() {
    uint64_t wpeak = 0;
    {
        File f; f.compressionLevel = 0; f.setDefaultLogContainerSize(CFG_CONTAINER); f.writeRestorePoints = false;
        // scaled-down back-pressure thresholds (the public API fixes them at 128 KiB / 10 objects): the bound must
        // hold relative to them, whatever their value
#ifndef UNSCALED
        f.m_uncompressedFile.setBufferSize(CFG_CONTAINER + TEXTLEN); f.m_readWriteQueue.setBufferSize(2);
#endif
        f.open(VP_FILE("a.blf"), std::ios_base::out);
        uint64_t base = vp_live_heap();
        for (int i = 0; i < NOBJ; i++) {
#ifdef UNSCALED
            // the thresholds the public API really uses (128 KiB / 10 objects, container size above 128 KiB): large
            // objects, the first 16 text bytes symbolic, the rest concrete filler
            AppText * t = new AppText; t->text.assign(TEXTLEN, 'x'); vp_bytes(&t->text[0], 16, "text"); t->source = vp_u32("src");
#else
            AppText * t = new AppText; t->text.resize(TEXTLEN); vp_bytes(&t->text[0], TEXTLEN, "text"); t->source = vp_u32("src");
#endif
            f.write(t);
            vp_yield();                       // slow producer: the workers run until they block
            uint64_t h = vp_live_heap() - base; if (h > wpeak) wpeak = h;
        }
        f.close();
    }
    vp_note("write_peak", wpeak);
#ifdef CORRUPT_OBJECT
    {   // one malformed object (declared size 0) early in the file: reading ends there; what the library still holds
        // afterwards must not depend on how much file follows
        static unsigned char img[VP_FS_CAP];
        long n = vp_fs_get("a.blf", img, sizeof img);
        long objLen = 32 + 16 + TEXTLEN; objLen += objLen % 4;
        long streamOff = CORRUPT_OBJECT * objLen + 8;              // objectSize field of that object in the uncompressed stream
        long cpos = 144; long seen = 0;
        while (cpos + 32 <= n) {
            uint32_t osz; memcpy(&osz, img + cpos + 8, 4); uint32_t usz; memcpy(&usz, img + cpos + 24, 4);
            for (long k = 0; k < 4; k++) { long so = streamOff + k; if (so >= seen && so < seen + (long)usz) img[cpos + 32 + (so - seen)] = 0; }
            seen += usz; cpos += osz + osz % 4;
        }
        vp_fs_put("a.blf", img, n);
    }
#endif
    uint64_t rpeak = 0; int cnt = 0;
    {
        File g;
#ifndef UNSCALED
        g.m_uncompressedFile.setBufferSize(CFG_CONTAINER + TEXTLEN); g.m_readWriteQueue.setBufferSize(2);
#endif
        uint64_t base = vp_live_heap();
        g.open(VP_FILE("a.blf"), std::ios_base::in);
        for (;;) {
            vp_yield();                       // slow consumer: the workers run until they block
            ObjectHeaderBase * o = g.read();
            if (!o) break;
            uint64_t h = vp_live_heap() - base; if (h > rpeak) rpeak = h;
            delete o; cnt++;
            if (cnt > NOBJ + 2) break;
        }
#ifdef CORRUPT_OBJECT
        VP_ASSERT(cnt == CORRUPT_OBJECT);
        vp_yield();                            // the application keeps the File open for a while after the end was reported
        { uint64_t h = vp_live_heap() - base; if (h > rpeak) rpeak = h; }
#else
        VP_ASSERT(cnt == NOBJ);
#endif
        g.close();
    }
    vp_note("read_peak", rpeak);
    vp_reach("h_mem:end");
}
