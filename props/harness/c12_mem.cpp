// C12: live decoded data while reading / writing must not grow with the number of containers.
#include <vp_harness.h>
#include <vp_fs.h>
#include <Vector/BLF.h>
using namespace Vector::BLF;
#ifndef NOBJ
#define NOBJ 4
#endif
#ifndef CFG_CONTAINER
#define CFG_CONTAINER 16
#endif
#ifndef TEXTLEN
#define TEXTLEN 60
#endif
extern "C" void h_mem() {
    uint64_t wpeak = 0;
    {
        File f; f.compressionLevel = 0; f.setDefaultLogContainerSize(CFG_CONTAINER); f.writeRestorePoints = false;
        // scaled-down back-pressure thresholds (the public API fixes them at 128 KiB / 10 objects): the bound must
        // hold relative to them, whatever their value
        f.m_uncompressedFile.setBufferSize(CFG_CONTAINER + TEXTLEN); f.m_readWriteQueue.setBufferSize(2);
        f.open(VP_FILE("a.blf"), std::ios_base::out);
        uint64_t base = vp_live_heap();
        for (int i = 0; i < NOBJ; i++) {
            AppText * t = new AppText; t->text.resize(TEXTLEN); vp_bytes(&t->text[0], TEXTLEN, "text"); t->source = vp_u32("src");
            f.write(t);
            vp_yield();                       // slow producer: the workers run until they block
            uint64_t h = vp_live_heap() - base; if (h > wpeak) wpeak = h;
        }
        f.close();
    }
    vp_note("write_peak", wpeak);
    uint64_t rpeak = 0; int cnt = 0;
    {
        File g;
        g.m_uncompressedFile.setBufferSize(CFG_CONTAINER + TEXTLEN); g.m_readWriteQueue.setBufferSize(2);
        uint64_t base = vp_live_heap();
        g.open(VP_FILE("a.blf"), std::ios_base::in);
        for (;;) {
            vp_yield();                       // slow consumer: the workers run until they block
            ObjectHeaderBase * o = g.read();
            if (!o) break;
            uint64_t h = vp_live_heap() - base; if (h > rpeak) rpeak = h;
            delete o; cnt++;
            if (cnt > NOBJ + 2) break;
        }
        VP_ASSERT(cnt == NOBJ);
        g.close();
    }
    vp_note("read_peak", rpeak);
    vp_reach("h_mem:end");
}
