// C13: every object is released exactly once and sessions shut down cleanly, for all short API histories.
#include <vp_harness.h>
#include <vp_fs.h>
#include <Vector/BLF.h>
using namespace Vector::BLF;
#ifndef STEPS
#define STEPS 4
#endif
#ifndef FIRST_OP
#define FIRST_OP (-1)
#endif
#ifndef NFILE
#define NFILE 5
#endif
#ifndef SECOND_OP
#define SECOND_OP (-1)
#endif
enum { OPEN_MISSING_IN, OPEN_UNWRITABLE_OUT, OPEN_VALID_IN, OPEN_OUT, READ, WRITE, CLOSE, DESTROY, NOPS };
#ifndef DAMAGED_FILE
#define DAMAGED_FILE 0     /* 1: the valid file is a crash leftover: its last container lost its tail, an object ends abruptly */
#endif
enum { CLOSED, READING, WRITING };

extern "C" void h_hist() {
    {   // a valid file of two objects
        File w; w.compressionLevel = 0; w.setDefaultLogContainerSize(64);
        w.open(VP_FILE("b.blf"), std::ios_base::out);
        for (int i = 0; i < NFILE; i++) { CanMessage * m = new CanMessage; m->id = vp_u32("id"); w.write(m); }
        w.close();
    }
    int readable = NFILE;
    if (DAMAGED_FILE) {
        // two containers of 64 + remaining bytes; cut 20 bytes off the file: the second container is incomplete, so the
        // stream ends inside the second object (container 1 holds object 0 and 16 bytes of object 1)
        static unsigned char img[4096]; long n = vp_fs_get("b.blf", img, sizeof img);
        // rebuild with small containers so that an object straddles: rewrite the file with container size 64
        (void)n; vp_fs_truncate("b.blf", 144 + 2 * (32 + 64) + 40);   // two complete containers = 2 objects + 32 bytes of the third
        readable = -1;      // number of deliverable objects is not asserted for the damaged file
    }
#ifdef GARBAGE_FILE
    {   // the file exists but is not a BLF file: its signature is wrong. open() reports that by throwing; whatever the
        // application does next (close, destroy, open something else) must work and release everything
        static unsigned char img[4096]; long n = vp_fs_get("b.blf", img, sizeof img);
        img[0] = 'X'; img[1] = 'Y'; vp_fs_put("b.blf", img, n); readable = -1;
    }
#endif
    bool failedOpen = false;
    File * f = new File; f->compressionLevel = 0; f->setDefaultLogContainerSize(64);
    // queue capacity scaled down from 10 to 2: with 5 objects in the file the reader thread waits on the full queue
    f->m_readWriteQueue.setBufferSize(2);
    int state = CLOSED; bool opened = false; int delivered = 0; bool sawNull = false; int written = 0; int strayWrites = 0;
    for (int s = 0; s < STEPS && f; s++) {
        uint32_t op = (s == 0 && FIRST_OP >= 0) ? (uint32_t)FIRST_OP : (s == 1 && SECOND_OP >= 0) ? (uint32_t)SECOND_OP
                      : (uint32_t)vp_concrete(vp_choose(NOPS, "op"));
        // histories respect the mode of the open session; one successful open per session
        if (op == READ && state != READING) { vp_reach("h_hist:end"); delete f; return; }
        // one write() outside a write session is explored as well (the object still belongs to the library and must be freed
        // when the File goes away); more of them would only fill the queue nobody drains
        if (op == WRITE && state != WRITING) { if (state == READING || strayWrites >= 1) { vp_reach("h_hist:end"); delete f; return; } strayWrites++; }
        if ((op == OPEN_VALID_IN || op == OPEN_OUT) && opened && state == CLOSED) { vp_reach("h_hist:end"); delete f; return; }
        switch (op) {
        case OPEN_MISSING_IN: f->open(VP_FILE("missing.blf"), std::ios_base::in); break;
        case OPEN_UNWRITABLE_OUT: f->open(VP_FILE("ro/x.blf"), std::ios_base::out); break;
#ifdef GARBAGE_FILE
        case OPEN_VALID_IN: {
            bool threw = false;
            try { f->open(VP_FILE("b.blf"), std::ios_base::in); } catch (Vector::BLF::Exception &) { threw = true; }
            if (state == CLOSED && !failedOpen) { vp_assert(threw, "open() of a file with a wrong signature reports it by a library exception"); failedOpen = true; opened = true; }
            break; }
#else
        case OPEN_VALID_IN: f->open(VP_FILE("b.blf"), std::ios_base::in); if (state == CLOSED) { state = READING; opened = true; } break;
#endif
        case OPEN_OUT: f->open(VP_FILE("a.blf"), std::ios_base::out); if (state == CLOSED) { state = WRITING; opened = true; } break;
        case READ: {
            ObjectHeaderBase * o = f->read();
            if (readable < 0) { if (o) delivered++; else sawNull = true; }
            else if (sawNull || delivered == NFILE) { vp_assert(o == nullptr, "read() after the last object returns null"); sawNull = true; }
            else { vp_assert(o != nullptr, "read() delivers the next object"); if (o) delivered++; }
            delete o;                      // objects returned by read() belong to the caller
            break; }
        case WRITE: {                      // the object is owned by the library from here on
            uint32_t kind = (uint32_t)vp_concrete(vp_choose(3, "kind"));
            ObjectHeaderBase * o;
            if (kind == 0) { CanMessage * m = new CanMessage; m->id = vp_u32("wid"); o = m; }
            else if (kind == 1) { RestorePointContainer * r = new RestorePointContainer; r->data.resize(3); vp_bytes(r->data.data(), 3, "rp"); o = r; }
            else { AppText * t = new AppText; t->text.resize(70); vp_bytes(&t->text[0], 70, "txt"); o = t; }   // spans a container
            f->write(o); written++; break; }
        case CLOSE: vp_yield(); f->close(); state = CLOSED; break;      // workers parked wherever they block
        case DESTROY: vp_yield(); delete f; f = nullptr; state = CLOSED; break;
        }
        if (f && failedOpen) {
            // after the failed open only close / destroy are meaningful; close() must leave the File closed
            if (op == CLOSE) { vp_assert(!f->is_open(), "is_open() is false after close()"); failedOpen = false; }
            else if (op != OPEN_VALID_IN) { vp_reach("h_hist:end"); delete f; vp_check_leaks(); return; }
        } else if (f) {
            vp_assert(f->is_open() == (state != CLOSED), "is_open() reports the documented state");
            if (state == READING) {
                vp_assert(f->eof() == sawNull, "eof() is set exactly after read() returned null");
                vp_assert(f->good() == !sawNull, "good() until read() returned null");
            }
        }
    }
    vp_yield();
    delete f;                              // destruction with or without close, data possibly still queued
    VP_ASSERT(vp_threads_alive() == 0);
    vp_check_leaks();
    vp_reach("h_hist:end");
}
