// C08: a file cut off at any byte reads as an unmodified prefix of its objects.
#include <vp_harness.h>
#include <vp_fs.h>
#include <Vector/BLF.h>
#include <Vector/BLF/Exceptions.h>
using namespace Vector::BLF;
#ifndef CFG_LEVEL
#define CFG_LEVEL 0
#endif
#ifndef CFG_CONTAINER
#define CFG_CONTAINER 40
#endif
#ifndef HEADER_INITIAL
#define HEADER_INITIAL 0
#endif
#ifndef T_LO
#define T_LO 0
#endif
#ifndef T_HI
#define T_HI 100000
#endif
#define NOBJ 4
static unsigned char enc[NOBJ][160]; static long encLen[NOBJ];
static unsigned char img[VP_FS_CAP];

static ObjectHeaderBase * make(int i) {
    ObjectHeaderBase * o;
    if (i % 2 == 0) { CanMessage * m = new CanMessage; m->id = vp_u32("id"); m->channel = vp_u16("ch"); vp_bytes(m->data.data(), 8, "data"); o = m; }
    else { AppText * t = new AppText; t->source = vp_u32("src"); t->text.resize(9); vp_bytes(&t->text[0], 9, "text"); o = t; }
    MemFile mf(enc[i], sizeof enc[i]); o->write(mf); encLen[i] = mf.p;
    return o;
}
static uint32_t rd32(const unsigned char * p) { uint32_t v; memcpy(&v, p, 4); return v; }

extern "C" void h_trunc() {
    {
        File f; f.compressionLevel = CFG_LEVEL; f.setDefaultLogContainerSize(CFG_CONTAINER); f.writeRestorePoints = false;
        f.open(VP_FILE("a.blf"), std::ios_base::out);
        for (int i = 0; i < NOBJ; i++) f.write(make(i));
        f.close();
    }
    long n = vp_fs_get("a.blf", img, sizeof img);
    if (HEADER_INITIAL) {       // the logger died before the final header update: statistics as written by open()
        FileStatistics fs; MemFile m(img, 144); fs.write(m);
        vp_fs_put("a.blf", img, n);
    }
    long lo = T_LO, hi = T_HI; if (hi > n + 1) hi = n + 1; if (lo > hi) lo = hi;
    if (hi - lo <= 0) { vp_reach("h_trunc:end"); return; }
    long t = lo + (long)vp_concrete(vp_choose(static_cast<uint32_t>(hi - lo), "truncate_at"));
    // expectation from the format alone: payload of completely stored containers, objects wholly inside it
    long pos = 144, payload = 0;
    while (pos + 32 <= t) {
        uint32_t osz = rd32(img + pos + 8), usz = rd32(img + pos + 24);
        if (pos + osz > t) break;
        payload += usz;
        pos += osz + osz % 4;
    }
    int expect = 0; long acc = 0;
    while (expect < NOBJ && acc + encLen[expect] <= payload) { acc += encLen[expect]; expect++; }
    vp_note("t", static_cast<uint64_t>(t)); vp_note("expect", static_cast<uint64_t>(expect));
    vp_fs_truncate("a.blf", t);
    {
    File g;
#ifdef SCALED_STREAM
    // back-pressure threshold scaled down to one container: the decoder reaches the object that the cut has damaged before
    // the inflater has seen the end of the file (as in a long file)
    g.m_uncompressedFile.setBufferSize(CFG_CONTAINER < 16 ? 16 : CFG_CONTAINER);
#endif
    bool threw = false;
    try { g.open(VP_FILE("a.blf"), std::ios_base::in); } catch (const Exception &) { threw = true; }
    int cnt = 0;
    if (!threw && g.is_open()) {
        static unsigned char re[160];
        while (ObjectHeaderBase * o = g.read()) {
            vp_assert(cnt < expect, "no object beyond the completely stored containers is delivered");
            if (cnt < NOBJ) {
                MemFile m(re, sizeof re); o->write(m);
                vp_assert(m.p == encLen[cnt], "delivered object has its original length");
                if (m.p == encLen[cnt]) for (long i = 0; i < m.p; i++) vp_assert(re[i] == enc[cnt][i], "delivered object is unmodified");
            }
            delete o; cnt++;
            if (cnt > NOBJ + 2) break;
        }
        vp_assert(cnt == expect, "exactly the objects wholly contained in completely stored containers are delivered");
        vp_assert(g.eof(), "end is reported after the prefix");
        g.close();
    } else {
        vp_assert(expect == 0 || threw, "a file that cannot be opened has no complete object (or the library exception was raised)");
    }
    }
    vp_check_leaks();      // a half-read object at the cut must be released, too
    vp_reach("h_trunc:end");
}
