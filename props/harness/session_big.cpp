// Whole-file session with more data than the stream buffer (128 KiB) and a container size above it:
// the configuration in which back-pressure and container cutting interact.
#include <vp_harness.h>
#define VP_FS_CAP 400000
#include <vp_fs.h>
#include <Vector/BLF.h>
using namespace Vector::BLF;
#ifndef CFG_CONTAINER
#define CFG_CONTAINER 0x30000
#endif
#ifndef CFG_LEVEL
#define CFG_LEVEL 0
#endif
#ifdef INCOMPRESSIBLE
#define NOBJ 5            /* objects larger than a container: most containers hold nothing but high-entropy bytes */
#define TEXTLEN 50000
#else
#define NOBJ 52
#define TEXTLEN 4000
#endif
static unsigned char expect[260000]; static long expectLen;
static unsigned char img[VP_FS_CAP];
static unsigned char inflated[260000];
static unsigned char second[NOBJ], middle[NOBJ];
extern "C" int uncompress(unsigned char * dest, unsigned long * destLen, const unsigned char * src, unsigned long n);
static uint32_t rd32(const unsigned char * p) { uint32_t v; memcpy(&v, p, 4); return v; }
static uint16_t rd16(const unsigned char * p) { uint16_t v; memcpy(&v, p, 2); return v; }
static uint64_t rd64(const unsigned char * p) { uint64_t v; memcpy(&v, p, 8); return v; }

extern "C" void h_big_session() {
    uint32_t s0 = vp_u32("source"); uint8_t c0 = vp_u8("c0"), c1 = vp_u8("c1");
    {
        File f; f.compressionLevel = CFG_LEVEL; f.setDefaultLogContainerSize(CFG_CONTAINER); f.writeRestorePoints = false;
        f.open(VP_FILE("a.blf"), std::ios_base::out);
        VP_ASSERT(f.is_open());
        expectLen = 0;
        for (int i = 0; i < NOBJ; i++) {
            AppText * t = new AppText; t->source = s0 + static_cast<uint32_t>(i);
            t->text.assign(TEXTLEN, static_cast<char>('a' + i % 26)); t->text[0] = static_cast<char>(c0); t->text[TEXTLEN - 1] = static_cast<char>(c1);
#ifdef INCOMPRESSIBLE
            // high-entropy payload (binary blobs): deflate cannot shrink it and needs its worst-case output size
            { static uint32_t lcg = 12345; for (int k = 1; k < TEXTLEN - 1; k++) { lcg = lcg * 1664525u + 1013904223u; t->text[k] = static_cast<char>(lcg >> 24); } }
#endif
            second[i] = static_cast<unsigned char>(t->text[1]); middle[i] = static_cast<unsigned char>(t->text[TEXTLEN / 2]);
            { MemFile m(expect + expectLen, sizeof expect - expectLen); t->write(m); expectLen += m.p; }
            f.write(t);
        }
        f.close();
        vp_assert(f.fileStatistics.objectCount == NOBJ, "C05: header objectCount equals the number of objects written");
    }
    long n = vp_fs_get("a.blf", img, sizeof img);
    long pos = 144, payload = 0, sumUncompressed = 144;
    while (pos + 32 <= n) {
        const unsigned char * c = img + pos;
        vp_assert(c[0] == 'L' && c[1] == 'O' && c[2] == 'B' && c[3] == 'J' && rd32(c + 12) == 10, "C04: nothing but log containers after the header");
        uint32_t osz = rd32(c + 8), usz = rd32(c + 24); uint16_t method = rd16(c + 16);
        if (!(osz >= 32 && pos + osz <= n)) { vp_assert(0, "C04: container lies inside the file"); break; }
        vp_assert(usz <= CFG_CONTAINER, "C04: no container larger than the configured container size");
        vp_assert(method == (CFG_LEVEL == 0 ? 0 : 2), "C04: compression method matches the configured level");
        long stored = osz - 32; const unsigned char * d = c + 32; long dl = stored;
        if (method == 2) {
            // inflate with zlib's uncompress (llsym: the contract model; native replay: real zlib)
            unsigned long len = payload <= (long)sizeof inflated ? sizeof inflated - static_cast<unsigned long>(payload) : 0;
            int zrc = uncompress(inflated + payload, &len, c + 32, static_cast<unsigned long>(stored));
            vp_assert(zrc == 0 && len == usz, "C04: deflate stream inflates to the declared size"); dl = usz;
        } else {
            vp_assert(stored == (long)usz, "C04: stored size equals uncompressed size for method 0");
            if (payload + dl <= (long)sizeof inflated) memcpy(inflated + payload, d, static_cast<size_t>(dl));
        }
        payload += dl; sumUncompressed += 32 + usz;
        pos += osz + osz % 4;
    }
    vp_assert(payload == expectLen, "C04: concatenated payload has the length of the concatenated object encodings");
    if (payload == expectLen) {
        long bad = -1;
        for (long i = 0; i < expectLen && bad < 0; i++) if (vp_concrete(inflated[i] != expect[i])) bad = i;
        vp_note("first_bad_offset", static_cast<uint64_t>(bad));
        vp_assert(bad < 0, "C04: concatenated payload equals the objects' encodings in write order");
    }
    vp_assert(rd64(img + 24) == static_cast<uint64_t>(sumUncompressed), "C05: header uncompressedFileSize = 144 + sum(32 + uncompressed payload)");
    vp_assert(rd64(img + 16) == static_cast<uint64_t>(n), "C05: header fileSize equals the size on disk");
    // read back
    {
        File g; g.open(VP_FILE("a.blf"), std::ios_base::in);
        int cnt = 0;
        while (ObjectHeaderBase * o = g.read()) {
            if (cnt < NOBJ) {
                vp_assert(o->objectType == ObjectType::APP_TEXT, "C01: object type unchanged, original order");
                AppText * t = static_cast<AppText *>(o);
                vp_assert(t->source == s0 + static_cast<uint32_t>(cnt), "C01: every field value unchanged (source)");
                vp_assert(t->text.size() == TEXTLEN && t->text[0] == static_cast<char>(c0) && t->text[TEXTLEN - 1] == static_cast<char>(c1)
                          && t->text[1] == static_cast<char>(second[cnt]) && t->text[TEXTLEN / 2] == static_cast<char>(middle[cnt]),
                          "C01: every field value unchanged (text)");
            }
            delete o; cnt++;
            if (cnt > NOBJ + 2) break;
        }
        vp_assert(cnt == NOBJ, "C01: all objects delivered");
        vp_assert(g.eof() && !g.good(), "C01: eof set and stream no longer good after the last object");
        g.close();
    }
    vp_reach("h_big_session:end");
}
