// Whole-file sessions of the real File class (3 threads each, llsym cooperative threads; natively real threads).
// One harness serves C01 (end-to-end round trip), C04 (independent container decoder), C05 (header statistics),
// C06 (no deadlock, early close), selected by CHECK_* macros; configuration by CFG_* macros.
#include <vp_harness.h>
#include <vp_fs.h>
#include <Vector/BLF.h>
using namespace Vector::BLF;

#ifndef CFG_LEVEL
#define CFG_LEVEL 0
#endif
#ifndef CFG_CONTAINER
#define CFG_CONTAINER 40
#endif
#ifndef CFG_RESTORE
#define CFG_RESTORE 0
#endif
#ifndef NOBJ
#define NOBJ 4
#endif
#ifndef SCALED_BUFFER
#define SCALED_BUFFER (containerSize + 80)   /* >= container size (write side) and >= largest decoder chunk (read side) */
#endif
#ifndef EARLY_CLOSE_AFTER
#define EARLY_CLOSE_AFTER (-1)
#endif

static unsigned char enc[NOBJ][160]; static long encLen[NOBJ]; static uint32_t encType[NOBJ];
static unsigned char img[VP_FS_CAP];
static unsigned char cat[1024]; static long catLen;

static ObjectHeaderBase * make(int i) {
    ObjectHeaderBase * o;
    if (i % 3 == 0) {
        CanMessage * m = new CanMessage; m->channel = vp_u16("channel"); m->flags = vp_u8("flags"); m->dlc = vp_u8("dlc");
        m->id = vp_u32("id"); vp_bytes(m->data.data(), 8, "data"); m->objectTimeStamp = vp_u64("ts"); o = m;
    } else if (i % 3 == 1) {
        AppText * t = new AppText; t->source = vp_u32("source"); t->text.resize(5 + i); vp_bytes(&t->text[0], 5 + i, "text");
        t->objectFlags = vp_u32("oflags"); o = t;
    } else {
        CanMessage2 * m = new CanMessage2; m->id = vp_u32("id2"); m->data.resize(3); vp_bytes(m->data.data(), 3, "data2");
        m->frameLength = vp_u32("frameLength"); m->bitCount = vp_u8("bitCount"); o = m;
    }
    MemFile mf(enc[i], sizeof enc[i]);
    o->write(mf);
    encLen[i] = mf.p; memcpy(&encType[i], &o->objectType, 4);
    return o;
}

extern "C" int uncompress(unsigned char * dest, unsigned long * destLen, const unsigned char * src, unsigned long n);
static uint32_t rd32(const unsigned char * p) { uint32_t v; memcpy(&v, p, 4); return v; }
static uint16_t rd16(const unsigned char * p) { uint16_t v; memcpy(&v, p, 2); return v; }
static uint64_t rd64(const unsigned char * p) { uint64_t v; memcpy(&v, p, 8); return v; }

extern "C" void h_session() {
    // caller-supplied header fields
    uint8_t appId = vp_u8("applicationId"), hdrLevel = vp_u8("hdr.compressionLevel"), appMajor = vp_u8("applicationMajor"),
            appMinor = vp_u8("applicationMinor");
    uint32_t apiNumber = vp_u32("apiNumber"), appBuild = vp_u32("applicationBuild");
    uint16_t year = vp_u16("year"), ms = vp_u16("lastMs");
    long expectObjects = NOBJ;
    uint64_t hdrUncompressed = 0, hdrFileSize = 0, hdrRestore = 0; uint32_t hdrCount = 0; uint32_t containerSize = CFG_CONTAINER;
    {
        File f;
        f.compressionLevel = CFG_LEVEL;
        f.setDefaultLogContainerSize(CFG_CONTAINER);
        f.writeRestorePoints = CFG_RESTORE != 0;
#ifndef HEADER_AFTER_OPEN
        f.fileStatistics.applicationId = appId; f.fileStatistics.compressionLevel = hdrLevel;
        f.fileStatistics.applicationMajor = appMajor; f.fileStatistics.applicationMinor = appMinor;
        f.fileStatistics.apiNumber = apiNumber; f.fileStatistics.applicationBuild = appBuild;
        f.fileStatistics.measurementStartTime.year = year; f.fileStatistics.lastObjectTime.milliseconds = ms;
#endif
        ObjectHeaderBase * objs[NOBJ];
        catLen = 0;
        for (int i = 0; i < NOBJ; i++) {
            objs[i] = make(i);
            memcpy(cat + catLen, enc[i], static_cast<size_t>(encLen[i])); catLen += encLen[i];
        }
#ifdef CONTAINER_DIVIDES_PAYLOAD
        // the payload is an exact multiple of the container size
        containerSize = static_cast<uint32_t>(catLen / CONTAINER_DIVIDES_PAYLOAD);
        if (containerSize * CONTAINER_DIVIDES_PAYLOAD != static_cast<uint32_t>(catLen)) containerSize = static_cast<uint32_t>(catLen);
        f.setDefaultLogContainerSize(containerSize);
#endif
#ifdef LAST_PADDING_AT_BOUNDARY
        // the data of the last object ends exactly at a container boundary, its (objectSize % 4) padding lies behind it
        {
            uint32_t pad = rd32(enc[NOBJ - 1] + 8) % 4;
            VP_ASSERT(pad != 0);
            containerSize = static_cast<uint32_t>((catLen - pad) / LAST_PADDING_AT_BOUNDARY);
            if (containerSize * LAST_PADDING_AT_BOUNDARY != static_cast<uint32_t>(catLen - pad)) containerSize = static_cast<uint32_t>(catLen - pad);
            f.setDefaultLogContainerSize(containerSize);
        }
#endif
#ifdef SCALE_THRESHOLDS
        // scaled-down back-pressure thresholds (the API fixes them at 10 objects / >= 128 KiB): the workers and the
        // application really block on full queue / full stream in a session of a few objects
        f.m_readWriteQueue.setBufferSize(2); f.m_uncompressedFile.setBufferSize(SCALED_BUFFER);
#endif
        f.open(VP_FILE("a.blf"), std::ios_base::out);
        VP_ASSERT(f.is_open());
        for (int i = 0; i < NOBJ; i++) {
            f.write(objs[i]);
#ifdef POLL_STATE
            // the application polls the stream state while the workers run (documented API)
            { volatile bool g_ = f.good(), e_ = f.eof(); (void)g_; (void)e_; }
#endif
#ifdef GROW_CONTAINER_DURING_WRITE
            // documented API, used in the middle of a write session: the container size is changed while the workers run
            if (i == GROW_CONTAINER_DURING_WRITE) f.setDefaultLogContainerSize(CFG_CONTAINER * 3);
#endif
#if defined(SLOW_PRODUCER) || defined(SCALE_THRESHOLDS)
            vp_yield();          // a slow producer (live logging): the workers drain everything and wait in between
#endif
        }
#ifdef APP_RESTORE_POINT
        // the application writes a restore point object (type 115) of its own; the format counts it neither on the write nor
        // on the read side
        { RestorePointContainer * r = new RestorePointContainer; r->data.resize(4); vp_bytes(r->data.data(), 4, "rp"); f.write(r); }
#endif
#ifdef HEADER_AFTER_OPEN
        // header fields assigned during the session (the last object time is only known at the end)
        f.fileStatistics.applicationId = appId; f.fileStatistics.compressionLevel = hdrLevel;
        f.fileStatistics.applicationMajor = appMajor; f.fileStatistics.applicationMinor = appMinor;
        f.fileStatistics.apiNumber = apiNumber; f.fileStatistics.applicationBuild = appBuild;
        f.fileStatistics.measurementStartTime.year = year; f.fileStatistics.lastObjectTime.milliseconds = ms;
#endif
        vp_sched_point("before_close");
        f.close();
        VP_ASSERT(!f.is_open());
        hdrUncompressed = f.fileStatistics.uncompressedFileSize; hdrFileSize = f.fileStatistics.fileSize;
        hdrCount = f.fileStatistics.objectCount; hdrRestore = f.fileStatistics.restorePointsOffset;
#ifdef CHECK_C05
        vp_assert(f.currentObjectCount == NOBJ, "C05: writer's running object count equals the number of objects written");
#endif
    }
#ifdef WRITE_ONLY_SESSION
    vp_check_leaks();
    vp_reach("h_session:end");
    return;
#endif
    long n = vp_fs_get("a.blf", img, sizeof img);
    vp_note("disk_size", static_cast<uint64_t>(n));
    vp_out(img, n, "file");
    // ---- independent walk of the finished file (format knowledge only; no library code)
    long pos = 144; long payload = 0; long sumUncompressed = 144; int containers = 0; long lastContainerStart = -1;
    static unsigned char inflated[1024];
#if defined(CHECK_C04) || defined(CHECK_C05)
    vp_assert(n >= 144, "C04: file has the 144-byte statistics header");
    vp_assert(img[0] == 'L' && img[1] == 'O' && img[2] == 'G' && img[3] == 'G', "C04: LOGG signature");
    vp_assert(rd32(img + 4) == 144, "C04: statisticsSize field is 144");
    while (pos + 32 <= n) {
        const unsigned char * c = img + pos;
        vp_assert(c[0] == 'L' && c[1] == 'O' && c[2] == 'B' && c[3] == 'J', "C04: container starts with LOBJ");
        vp_assert(rd16(c + 4) == 16, "C04: container headerSize is 16");
        vp_assert(rd16(c + 6) == 1, "C04: container headerVersion is 1");
        uint32_t osz = rd32(c + 8);
        vp_assert(rd32(c + 12) == 10, "C04: object type is LOG_CONTAINER");
        uint16_t method = rd16(c + 16);
        uint32_t usz = rd32(c + 24);
        vp_assert(osz >= 32 && pos + osz <= n, "C04: container lies inside the file");
        if (!(osz >= 32 && pos + osz <= n)) break;
        uint32_t stored = osz - 32;
        vp_assert(method == (CFG_LEVEL == 0 ? 0 : 2), "C04: compression method matches the configured level");
        vp_assert(usz <= containerSize, "C04: no container larger than the configured container size");
        if (method == 0) {
            vp_assert(stored == usz, "C04: stored size equals uncompressed size for method 0");
            if (payload + stored <= (long)sizeof inflated) memcpy(inflated + payload, c + 32, stored);
            payload += stored;
        } else {
            // inflate with zlib's uncompress (llsym: the contract model 0x78, level, data, 4-byte sum; native replay: real zlib)
            unsigned long len = payload <= (long)sizeof inflated ? sizeof inflated - static_cast<unsigned long>(payload) : 0;
            int zrc = uncompress(inflated + payload, &len, c + 32, stored);
            vp_assert(zrc == 0 && len == usz, "C04: deflate stream inflates to the declared size");
#ifndef VP_NATIVE_FS
            vp_assert(c[32] == 0x78 && c[33] == CFG_LEVEL, "C04: zlib header carries the configured level");
#endif
            payload += usz;
        }
        sumUncompressed += 32 + usz;
        containers++;
        lastContainerStart = pos;
        long next = pos + osz + osz % 4;
        for (long k = pos + osz; k < next && k < n; k++) vp_assert(img[k] == 0, "C04: alignment padding between containers is zero");
        pos = next;
    }
    vp_assert(pos >= n, "C04: nothing but log containers after the header");
    vp_note("containers", static_cast<uint64_t>(containers));
#endif
#ifdef CHECK_C04
    vp_assert(payload == catLen, "C04: concatenated payload has the length of the concatenated object encodings");
    if (payload == catLen) for (long i = 0; i < catLen; i++) vp_assert(inflated[i] == cat[i], "C04: concatenated payload equals the objects' encodings in write order");
#endif
#ifdef CHECK_C05
    vp_assert(rd64(img + 16) == static_cast<uint64_t>(n), "C05: header fileSize equals the size on disk");
    vp_assert(hdrFileSize == static_cast<uint64_t>(n), "C05: fileStatistics.fileSize equals the size on disk");
    vp_assert(rd64(img + 24) == static_cast<uint64_t>(sumUncompressed), "C05: header uncompressedFileSize = 144 + sum(32 + uncompressed payload)");
    vp_assert(rd32(img + 32) == NOBJ, "C05: header objectCount equals the number of objects written");
    vp_assert(img[12] == appId && img[13] == hdrLevel && img[14] == appMajor && img[15] == appMinor, "C05: caller-supplied byte fields stored verbatim");
    vp_assert(rd32(img + 8) == apiNumber && rd32(img + 36) == appBuild, "C05: caller-supplied apiNumber/applicationBuild stored verbatim");
    vp_assert(rd16(img + 40) == year && rd16(img + 70) == ms, "C05: caller-supplied timestamps stored verbatim");
#if CFG_RESTORE
    vp_assert(static_cast<long>(rd64(img + 72)) == lastContainerStart, "C05: restorePointsOffset designates the start of the trailing container");
#endif
#endif
    // ---- read session
    {
        File g;
#ifdef SCALE_THRESHOLDS
        g.m_readWriteQueue.setBufferSize(2); g.m_uncompressedFile.setBufferSize(SCALED_BUFFER);
#endif
        g.open(VP_FILE("a.blf"), std::ios_base::in);
        VP_ASSERT(g.is_open());
        int cnt = 0;
        for (;;) {
            if (EARLY_CLOSE_AFTER >= 0 && cnt == EARLY_CLOSE_AFTER) break;
#ifdef SCALE_THRESHOLDS
            vp_yield();
#endif
            ObjectHeaderBase * o = g.read();
            if (!o) break;
#ifdef CHECK_C01
            vp_assert(cnt < NOBJ, "C01: not more objects than written");
            if (cnt < NOBJ) {
                uint32_t t; memcpy(&t, &o->objectType, 4);
                vp_assert(t == encType[cnt], "C01: object type unchanged, original order");
                static unsigned char re[160]; MemFile mf(re, sizeof re); o->write(mf);
                vp_assert(mf.p == encLen[cnt], "C01: re-encoded length unchanged");
                if (mf.p == encLen[cnt]) for (long i = 0; i < mf.p; i++) vp_assert(re[i] == enc[cnt][i], "C01: every field value unchanged (encodings equal)");
            }
#endif
            delete o;
            cnt++;
            if (cnt > NOBJ + 4) break;
        }
        if (EARLY_CLOSE_AFTER < 0) {
#ifdef CHECK_C01
            vp_assert(cnt == NOBJ, "C01: all objects delivered");
            vp_assert(g.eof(), "C01: eof set after the last object");
            vp_assert(!g.good(), "C01: stream no longer good after the last object");
#endif
#ifdef CHECK_C05
            vp_assert(g.currentObjectCount == hdrCount, "C05: reader's running object count equals the header value");
            vp_assert(g.currentUncompressedFileSize == hdrUncompressed, "C05: reader's running uncompressed size equals the header value");
#endif
        }
#ifdef SCALE_THRESHOLDS
        vp_yield();        // the workers are parked on full queue / full stream when close() arrives
#endif
        g.close();
        VP_ASSERT(!g.is_open());
    }
    vp_check_leaks();
    vp_reach("h_session:end");
}
