// C15: UncompressedFile against a flat byte-queue reference model.
#include <vp_harness.h>
#include <memory>
#include <Vector/BLF/UncompressedFile.h>
#include <Vector/BLF/LogContainer.h>
using namespace Vector::BLF;
#ifndef STEPS
#define STEPS 3
#endif
#ifndef FIRST_OP
#define FIRST_OP (-1)
#endif
#ifndef MAXN
#define MAXN 3
#endif
#define NOPS 9
#ifndef SECOND_OP
#define SECOND_OP (-1)
#endif

struct Model {
    unsigned char data[64]; long have = 0;      // bytes ever written, absolute positions 0..have
    long tellg = 0, tellp = 0, gcount = 0;
    long fs = 0x7fffffffffffffffL, bs = 0x7fffffffffffffffL;
    bool ab = false, good = true, eof = false;
    long low = 0;                               // positions below may have been dropped
    long cend = 0;                              // end of the container byte-writes currently fill
    uint32_t csize = 0;                         // configured container size
    bool mixed = false;                         // a whole container was appended behind a partly filled one
};
// assertions after the stream was driven outside the two usage modes of File (bytes + nextLogContainer, or
// whole containers only) carry their own label, so that they are reported separately
#define A(c) vp_assert((c) ? 1 : 0, m.mixed ? "container appended behind a partly filled byte container: " #c : #c)

static void observe(UncompressedFile & u, Model & m) {
    A(u.good() == m.good);
    A(u.eof() == m.eof);
    A(u.gcount() == m.gcount);
    A(static_cast<long>(std::streamoff(u.tellg())) == (m.good ? m.tellg : -1));
    A(static_cast<long>(std::streamoff(u.tellp())) == (m.good ? m.tellp : -1));
    A(u.fileSize() == m.fs);
}

extern "C" void h_stream() {
    UncompressedFile * up = new UncompressedFile; UncompressedFile & u = *up;
    Model m;
#ifdef CSIZE0
    uint32_t c0 = CSIZE0;             // the task list covers 1..3
#else
    uint32_t c0 = 1 + (uint32_t)vp_concrete(vp_choose(3, "containerSize"));
#endif
    u.setDefaultLogContainerSize(c0); m.csize = c0;
    for (int s = 0; s < STEPS; s++) {
        uint32_t op = (s == 0 && FIRST_OP >= 0) ? (uint32_t)FIRST_OP : (s == 1 && SECOND_OP >= 0) ? (uint32_t)SECOND_OP : (uint32_t)vp_concrete(vp_choose(NOPS, "op"));
        // would-block verdicts of potential waiters before the operation (no lost wake-up obligation)
        uint64_t ng = vp_notified(&u.tellgChanged), np = vp_notified(&u.tellpChanged);
        bool wb0 = !m.ab && !((m.tellp - m.tellg) < m.bs);
        bool rb0[5]; for (long k = 1; k <= 4; k++) rb0[k] = !m.ab && !(k + m.tellg <= m.tellp) && !(k + m.tellg > m.fs);
        if (op == 0) {                    // write(n bytes)
            long n = (long)vp_concrete(vp_choose(MAXN + 1, "wn"));
            unsigned char b[MAXN + 1]; vp_bytes(b, MAXN + 1, "wdata");
            bool expectBlock = !m.ab && !((m.tellp - m.tellg) < m.bs);
            bool blocked = false;
            vp_probe(1); try { u.write(reinterpret_cast<char *>(b), n); } catch (VpBlocked &) { blocked = true; } vp_probe(0);
            A(blocked == expectBlock);
            if (!blocked) {
                if (m.tellp + n > 64) return;
                for (long i = 0; i < n; i++) m.data[m.tellp + i] = b[i];
                { long t = m.tellp, r = n; while (r > 0) { if (t >= m.cend) { if (m.cend < t) m.cend = t; m.cend += m.csize; } long k2 = m.cend - t; if (k2 > r) k2 = r; t += k2; r -= k2; } }
                m.tellp += n; if (m.tellp > m.have) m.have = m.tellp;
                if (m.tellp >= m.fs) m.fs = m.tellp;
            }
        } else if (op == 1) {             // write(whole container of k bytes)
            long k = 1 + (long)vp_concrete(vp_choose(MAXN, "ck"));
            std::shared_ptr<LogContainer> lc(new LogContainer);
            lc->uncompressedFile.resize(static_cast<size_t>(k));
            vp_bytes(lc->uncompressedFile.data(), k, "cdata");
            lc->uncompressedFileSize = static_cast<uint32_t>(k);
            bool expectBlock = !m.ab && !((m.tellp - m.tellg) < m.bs);
            bool blocked = false;
            vp_probe(1); try { u.write(lc); } catch (VpBlocked &) { blocked = true; } vp_probe(0);
            A(blocked == expectBlock);
            if (!blocked) {
                if (m.tellp + k > 64) return;
                if (m.cend > m.tellp) m.mixed = true;
                if (m.tellp + k > m.cend) m.cend = m.tellp + k;
                for (long i = 0; i < k; i++) m.data[m.tellp + i] = lc->uncompressedFile[static_cast<size_t>(i)];
                m.tellp += k; if (m.tellp > m.have) m.have = m.tellp;
            }
        } else if (op == 2) {             // read(n)
            long n = (long)vp_concrete(vp_choose(MAXN + 2, "rn"));
            // more declared than written: a read reaching behind the put position is outside the contract
            if (m.fs > m.tellp && m.fs != 0x7fffffffffffffffL && n + m.tellg > m.tellp) { vp_reach("h_stream:end"); delete up; return; }
            unsigned char b[MAXN + 2]; memset(b, 0xEE, sizeof b);
            bool expectBlock = !m.ab && !(n + m.tellg <= m.tellp) && !(n + m.tellg > m.fs);
            bool blocked = false;
            vp_probe(1); try { u.read(reinterpret_cast<char *>(b), n); } catch (VpBlocked &) { blocked = true; } vp_probe(0);
            A(blocked == expectBlock);
            if (!blocked) {
                long want = n;
                if (n + m.tellg > m.fs) { want = m.fs - m.tellg; m.good = false; m.eof = true; }   /* iostream-like: a failure persists */
                if (want < 0) want = 0;
                long avail = m.tellp - m.tellg; if (avail < 0) avail = 0;
                long got = want < avail ? want : avail;          // bytes that exist
                m.gcount = got;
                for (long i = 0; i < got; i++) A(b[i] == m.data[m.tellg + i]);
                m.tellg += got;
            }
        } else if (op == 3) {             // seekg(off), forward or back to not-yet-dropped data
            long off = (long)vp_concrete(vp_choose(2 * MAXN + 1, "off")) - MAXN;
            if (m.tellg + off < m.low) off = m.low - m.tellg;
            u.seekg(off, std::ios_base::cur);
            long t = m.tellg + off; if (t > m.fs) t = m.fs; m.tellg = t;
        } else if (op == 4) { u.nextLogContainer(); if (m.cend > m.tellp && m.tellp > m.cend - (long)m.csize) m.cend = m.tellp; }
        else if (op == 5) { u.dropOldData(); long l = m.tellg < m.tellp ? m.tellg : m.tellp; if (m.fs < l) l = m.fs; if (l > m.low) m.low = l; }
        else if (op == 6) { long v = m.tellp + (long)vp_concrete(vp_choose(4, "fsahead")); u.setFileSize(v); m.fs = v; }   // declare the end at / ahead of the put position
        else if (op == 7) { uint32_t c = 1 + (uint32_t)vp_concrete(vp_choose(3, "c")); u.setDefaultLogContainerSize(c); m.csize = c; A(u.defaultLogContainerSize() == c); }
        else { long b = 1 + (long)vp_concrete(vp_choose(4, "bs")); u.setBufferSize(b); m.bs = b; }   // small back-pressure threshold
        observe(u, m);
        // a waiter whose predicate became true through this operation must have been notified.
        // setBufferSize is called by the application thread through File::setDefaultLogContainerSize, which is legal while a
        // write session runs: enlarging the buffer frees space for a writer that is parked on the old threshold
        if (op == 8) {
            bool wb1 = !m.ab && !((m.tellp - m.tellg) < m.bs);
            if (wb0 && !wb1) vp_assert(vp_notified(&u.tellgChanged) > ng, "a writer waiting for buffer space is notified when the buffer is enlarged");
        }
        // single producer / single consumer: the consumer's own operations (read, seekg, dropOldData) need not wake the
        // consumer, the producer's own operations (write, nextLogContainer, setFileSize) need not wake the producer
        bool consumerOp = (op == 2 || op == 3 || op == 5), producerOp = (op == 0 || op == 1 || op == 4 || op == 6);
        if (consumerOp) {
            bool wb1 = !m.ab && !((m.tellp - m.tellg) < m.bs);
            if (wb0 && !wb1) vp_assert(vp_notified(&u.tellgChanged) > ng, "a writer waiting for buffer space is notified when space becomes available");
        }
        if (producerOp) {
            for (long k = 1; k <= 4; k++) {
                bool rb1 = !m.ab && !(k + m.tellg <= m.tellp) && !(k + m.tellg > m.fs);
                if (rb0[k] && !rb1) vp_assert(vp_notified(&u.tellpChanged) > np, "a reader waiting for data or for the end is notified when its wait condition becomes true");
            }
        }
    }
    // drain: everything not yet read comes out in order (FIFO), whatever the chunking was
    {
        u.setFileSize(m.tellp); m.fs = m.tellp;
        long rest = m.tellp - m.tellg;
        if (!m.good) rest = 0;            /* a failed state persists (iostream-like) */
        if (rest > 0 && rest <= 32) {
            unsigned char b[32];
            bool blocked = false;
            vp_probe(1); try { u.read(reinterpret_cast<char *>(b), rest); } catch (VpBlocked &) { blocked = true; } vp_probe(0);
            A(!blocked);
            A(u.gcount() == rest);
            for (long i = 0; i < rest; i++) A(b[i] == m.data[m.tellg + i]);
        }
    }
    delete up;
    vp_check_leaks();
    vp_reach("h_stream:end");
}
