// C09 (a): signature resynchronisation of ObjectHeaderBase::read on arbitrary filler.
#include <vp_harness.h>
#include <Vector/BLF/ObjectHeaderBase.h>
#include <Vector/BLF/Exceptions.h>
using namespace Vector::BLF;
#ifndef MAXFILL
#define MAXFILL 9
#endif
extern "C" void h_resync() {
    static unsigned char buf[MAXFILL + 16 + 8];
    uint32_t L = (uint32_t)vp_concrete(vp_choose(MAXFILL + 1, "filler_length"));
    vp_bytes(buf, L, "filler");                       // full 256-value bytes
    // the filler does not contain the signature (any window starting inside the filler)
    for (uint32_t i = 0; i < L; i++) {
        unsigned char c0 = buf[i], c1 = i + 1 < L ? buf[i + 1] : 'L', c2 = i + 2 < L ? buf[i + 2] : (i + 2 == L ? 'L' : 'O'),
                      c3 = i + 3 < L ? buf[i + 3] : (i + 3 == L ? 'L' : (i + 3 == L + 1 ? 'O' : 'B'));
        vp_assume(!(c0 == 'L' && c1 == 'O' && c2 == 'B' && c3 == 'J'));
    }
    unsigned char * h = buf + L;
    h[0] = 'L'; h[1] = 'O'; h[2] = 'B'; h[3] = 'J';
    uint16_t hs = vp_u16("headerSize"), hv = vp_u16("headerVersion"); uint32_t os = vp_u32("objectSize"), ot = vp_u32("objectType");
    memcpy(h + 4, &hs, 2); memcpy(h + 6, &hv, 2); memcpy(h + 8, &os, 4); memcpy(h + 12, &ot, 4);
    MemFile mf(buf, sizeof buf, L + 16);
    ObjectHeaderBase ohb(0, ObjectType::UNKNOWN);
    bool threw = false;
    try { ohb.read(mf); } catch (const Exception &) { threw = true; }
    VP_ASSERT(!threw);
    VP_ASSERT(mf.g == (std::streamsize)(L + 16));      // found exactly at the real header
    VP_ASSERT(mf.good());
    VP_ASSERT(ohb.signature == ObjectSignature);
    VP_ASSERT(ohb.headerSize == hs); VP_ASSERT(ohb.headerVersion == hv); VP_ASSERT(ohb.objectSize == os);
    uint32_t t; memcpy(&t, &ohb.objectType, 4); VP_ASSERT(t == ot);
    vp_reach("h_resync:end");
}
