// C06 O2/O3: circular-wait freedom decided on the real wait predicates, for ANY sizes.
// The three session threads can only wait at these sites (read session / write session):
//   application : queue.read()            | queue.write(obj)
//   codec worker: stream.read(s, n)       | stream.write(s, n)      (or the opposite queue side, which can never
//                                                                    block together with the application)
//   (de)compression worker: stream.write(container) | stream.read(s, C)
// Each probe runs the real method up to its real predicate in probe mode.
#include <vp_harness.h>
#include <memory>
#include <Vector/BLF.h>
using namespace Vector::BLF;

template<class F> static bool blocks(F f) {
    bool b = false;
    vp_probe(1); try { f(); } catch (VpBlocked &) { b = true; } vp_probe(0);
    return b;
}

static void arbitrary_session_state(File & f, long & d, bool readSession = false) {
    UncompressedFile & u = f.m_uncompressedFile;
    // stream positions: stream still open (end not declared yet).  Write session: 0 <= tellg <= tellp.
    // Read session: the decoder skips objects by relative seeks, so the get position may also run ahead of the
    // put position (an object whose declared end is not inflated yet).
    long tg = (long)vp_u64("tellg"), tp = (long)vp_u64("tellp");
    vp_assume(tg >= 0); vp_assume(tp >= 0); vp_assume(tp < (1L << 48)); vp_assume(tg < (1L << 48));
    if (!readSession) vp_assume(tp >= tg);
    u.m_tellg = tg; u.m_tellp = tp;
    d = tp - tg;
}

extern "C" void h_write_session() {
    File f;
    uint32_t c = vp_u32("containerSize"); vp_assume(c >= 1);
    f.setDefaultLogContainerSize(c);                       // the only configuration call the API offers
    long d; arbitrary_session_state(f, d);
    // queue at capacity is the only way the application can wait in write()
    uint32_t k = (uint32_t)vp_concrete(vp_choose(12, "queued"));
    for (uint32_t i = 0; i < k; i++) f.m_readWriteQueue.m_queue.push(new ObjectHeaderBase(1, ObjectType::UNKNOWN));
    static char buf[8];
    ObjectHeaderBase * extra = new ObjectHeaderBase(1, ObjectType::UNKNOWN);
    bool comp = blocks([&] { f.m_uncompressedFile.read(buf, f.m_uncompressedFile.defaultLogContainerSize()); });
    bool codec = blocks([&] { f.m_uncompressedFile.write(buf, 0); });
    bool app = blocks([&] { f.m_readWriteQueue.write(extra); });
    if (app) delete extra;
    vp_note("app", app); vp_note("codec", codec); vp_note("comp", comp);
    vp_assert(!(app && codec && comp), "write session: application (queue full), encoder (stream full) and compressor (waiting for a whole container) all wait for each other");
    // the compressor alone can always finish once the encoder declared the end
    f.m_uncompressedFile.setFileSize(f.m_uncompressedFile.m_tellp);
    bool comp2 = blocks([&] { f.m_uncompressedFile.read(buf, 0); });
    VP_ASSERT(!comp2);
    // O3: abort releases everybody
    f.m_uncompressedFile.abort(); f.m_readWriteQueue.abort();
    VP_ASSERT(!blocks([&] { f.m_uncompressedFile.write(buf, 0); }));
    ObjectHeaderBase * extra2 = new ObjectHeaderBase(1, ObjectType::UNKNOWN);
    VP_ASSERT(!blocks([&] { f.m_readWriteQueue.write(extra2); }));
    vp_reach("h_write_session:end");
}

extern "C" void h_read_session() {
    File f;
    uint32_t c = vp_u32("containerSize"); vp_assume(c >= 1);
    f.setDefaultLogContainerSize(c);
    long d; arbitrary_session_state(f, d, true);
    uint32_t k = (uint32_t)vp_concrete(vp_choose(3, "queued"));
    for (uint32_t i = 0; i < k; i++) f.m_readWriteQueue.m_queue.push(new ObjectHeaderBase(1, ObjectType::UNKNOWN));
    long n = (long)vp_u64("chunk");                         // one read chunk of the decoder (field or payload)
    vp_assume(n >= 1); vp_assume(n <= 0xffffffffL);
    static char buf[8];
    std::shared_ptr<LogContainer> lc(new LogContainer);
    bool app = blocks([&] { ObjectHeaderBase * o = f.m_readWriteQueue.read(); delete o; });
    bool codec = blocks([&] { f.m_uncompressedFile.read(buf, n); });
    bool infl = blocks([&] { f.m_uncompressedFile.write(lc); });
    vp_note("app", app); vp_note("codec", codec); vp_note("infl", infl);
    if (d >= 0) vp_assert(!(app && codec && infl), "read session: application (queue empty), decoder (waiting for a chunk) and inflater (stream full) all wait for each other");
    else vp_assert(!(app && codec && infl), "read session, get position ahead of put position after a skip: application, decoder and inflater all wait for each other");
    // O3: close() order for reading: abort stream, abort queue -> nobody waits
    f.m_uncompressedFile.abort(); f.m_readWriteQueue.abort();
    VP_ASSERT(!blocks([&] { f.m_uncompressedFile.read(buf, n > 8 ? 0 : 0); }));
    VP_ASSERT(!blocks([&] { f.m_uncompressedFile.write(buf, 0); }));
    VP_ASSERT(!blocks([&] { ObjectHeaderBase * o = f.m_readWriteQueue.read(); delete o; }));
    vp_reach("h_read_session:end");
}
