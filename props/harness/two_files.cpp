// Two independent File objects written concurrently in one process: neither may influence the other's bytes (C14),
// and their workers must not share unsynchronised state (C11).
#include <vp_harness.h>
#include <vp_fs.h>
#include <Vector/BLF.h>
using namespace Vector::BLF;
#ifndef CFG_LEVEL
#define CFG_LEVEL 6
#endif
#define NOBJ 3
static unsigned char encA[NOBJ][96], encB[NOBJ][96]; static long lenA[NOBJ], lenB[NOBJ];
static unsigned char img[4096], infl[1024], cat[1024];
static uint32_t rd32(const unsigned char * p) { uint32_t v; memcpy(&v, p, 4); return v; }
static uint16_t rd16(const unsigned char * p) { uint16_t v; memcpy(&v, p, 2); return v; }

static ObjectHeaderBase * make(unsigned char * enc, long * len, const char * tag, int i) {
    AppText * t = new AppText; t->source = vp_u32(tag); t->text.resize(9 + i); vp_bytes(&t->text[0], 9 + i, tag);
    MemFile m(enc, 96); t->write(m); *len = m.p; return t;
}
static void check_file(const char * name, unsigned char enc[][96], long * len, const char * what) {
    long n = vp_fs_get(name, img, sizeof img);
    long pos = 144, payload = 0;
    while (pos + 32 <= n) {
        const unsigned char * c = img + pos; uint32_t osz = rd32(c + 8), usz = rd32(c + 24); uint16_t method = rd16(c + 16);
        if (!(osz >= 32 && pos + osz <= n)) break;
        const unsigned char * d = method == 2 ? c + 34 : c + 32;
        if (payload + usz <= (long)sizeof infl) memcpy(infl + payload, d, usz);
        payload += usz; pos += osz + osz % 4;
    }
    long cl = 0; for (int i = 0; i < NOBJ; i++) { memcpy(cat + cl, enc[i], static_cast<size_t>(len[i])); cl += len[i]; }
    vp_assert(payload == cl, what);
    if (payload == cl) for (long i = 0; i < cl; i++) vp_assert(infl[i] == cat[i], what);
    vp_out(img, n, name);
}
extern "C" void h_two_files() {
    {
        File a, b;
        a.compressionLevel = CFG_LEVEL; b.compressionLevel = CFG_LEVEL;
        a.setDefaultLogContainerSize(40); b.setDefaultLogContainerSize(56);
        a.writeRestorePoints = false; b.writeRestorePoints = false;
        a.open(VP_FILE("a.blf"), std::ios_base::out);
        b.open(VP_FILE("b.blf"), std::ios_base::out);
        for (int i = 0; i < NOBJ; i++) {
            a.write(make(encA[i], &lenA[i], "a", i));
            b.write(make(encB[i], &lenB[i], "b", i));
            vp_yield();
        }
        a.close(); b.close();
    }
    check_file("a.blf", encA, lenA, "file A holds exactly its own objects, whatever file B's workers did meanwhile");
    check_file("b.blf", encB, lenB, "file B holds exactly its own objects, whatever file A's workers did meanwhile");
    vp_reach("h_two_files:end");
}
