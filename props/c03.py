"""C03 Every written object is framed exactly as its own header declares."""
import codec_common as CC


def tasks(tier, seed):
    ts = CC.rt_tasks(tier, kinds={'framing', 'stale_dependence', 'memory', 'harness', 'trap', 'unreachable'})
    ts += CC.big_tasks(tier, kinds={'framing', 'stale_dependence', 'memory', 'harness', 'trap', 'unreachable'})
    meta = dict(
        level='model_checking',
        explanation='llsym executes the real <Type>::write / ::read / calculateObjectSize / header-base write of every '
                    'creatable object class from clang IR with all scalar members symbolic (full width), container '
                    'lengths 0..N, size/length members pre-set to arbitrary stale values; per path z3 decides: '
                    'headerSize field == bytes emitted by the header base class, objectSize field (+ objectSize%4 zero '
                    'padding for the padding types observed in the reference logs, none otherwise) == bytes emitted, '
                    'decoding consumes exactly the emitted bytes, no branch/extent of the encoder depends on a stale '
                    'size/length member, no out-of-bounds access while encoding.',
        trusted_base=CC.TRUSTED,
        bounds='container lengths 0..4 (quick) / 0..8 (thorough), every residue mod 4 and empty included; one object '
               'per harness; stream capacity 4096 bytes',
        assumptions=['payloads longer than the bound are outside the claim (codecs have no length-dependent control '
                     'flow besides the copy extents)',
                     'padding-type set P is taken from the 170 reference logs by engine/blfwalk.py'])
    return ts, meta
